"""Pretty-print a replay record: python -m gtsim.show <file>"""
import json
import sys


def short(v):
    if isinstance(v, dict) and "__nd__" in v:
        if len(str(v["__nd__"])) < 40:
            return v["__nd__"]
        return "arr" + str(v["shape"])
    if isinstance(v, dict):
        return {k: short(x) for k, x in v.items()}
    return v


def main(path):
    r = json.load(open(path))
    print("property", r["property"], "scenario", r.get("scenario"), "seed", r["seed"])
    for i, x in enumerate(r.get("records", [])):
        pre = r.get("faults", {}).get(str(i))
        if pre:
            print("   faults before:", pre)
        print(i, ("FLIP " if i in r.get("flips", []) else "") + str({k: short(v) for k, v in x.items()}))
    for k in r:
        if k not in ("records", "faults", "flips", "violation", "config", "property", "scenario", "seed"):
            print(k, "=", str(short(r[k]))[:600])
    v = r["violation"]
    print("VIOLATION", v["check"], v["msg"][:400])
    print({k: (short(x) if not isinstance(x, dict) or "__nd__" not in x else x["__nd__"]) for k, x in v["detail"].items()})


if __name__ == "__main__":
    main(sys.argv[1])
