"""Perturbations (the "faults"): actions the properties say must be unobservable.

Every perturbation is counted when it *fires and changes hidden state*, not when scheduled.
"""
import numpy as np

from . import ref
from .model import lib, describe
from .ref import A, Violation

WARM_QUERIES = (
    "integrate1", "integrate_x", "integrate_xx", "log_integral", "log_integral_light",
    "integral_light", "integral", "get_density", "evaluate_ln", "invert_lambda", "compute_lnZ",
    "compute_mu", "is_normalized", "product_probe", "integrate_lin",
)


def query(obj, q, salt=0, u=None):
    """Run read-only query q on obj, return its value (numpy) or None."""
    jnp = lib()["jnp"]
    k = ref.kind_of(obj)
    if k == "trunc":
        return A(obj.integrate("1"))
    if k in ("measure", "pdf"):
        if q == "integrate1":
            return A(obj.integrate("1"))
        if q == "integrate_x":
            return A(obj.integrate("x"))
        if q == "integrate_xx":
            return A(obj.integrate("xx'"))
        if q == "integrate_lin":
            return A(obj.integrate("(Ax+a)"))
        if q in ("log_integral", "log_integral_light", "integral_light", "integral"):
            return A(getattr(obj, q)())
        if q == "is_normalized":
            return np.asarray(obj.is_normalized())
        if q == "get_density":
            d = obj.get_density()
            return A(d.mu)
        if q in ("invert_lambda", "compute_lnZ", "compute_mu"):
            getattr(obj, q)()
            return None
        if q == "product_probe":
            obj.product()
            return None
    if k == "cond":
        x = jnp.asarray(ref.generic_points(int(obj.Dx), ("warm", salt))[:2])
        if type(obj).__name__ == "NNControlGaussianConditional":
            return A(obj.get_conditional_mu(x, u))
        return A(obj.get_conditional_mu(x))
    X = jnp.asarray(ref.generic_points(int(obj.D), ("warm", salt))[:3])
    return A(obj.evaluate_ln(X))


def canonical_rebuild(obj):
    """Evict: rebuild from the defining parameters through the public constructor (cold)."""
    L = lib()
    jnp = L["jnp"]
    cls = type(obj)
    name = cls.__name__
    k = ref.kind_of(obj)
    if k == "trunc":
        return None
    if k == "pdf":
        return cls(Sigma=obj.Sigma, mu=obj.mu)
    if k == "measure":
        return cls(Lambda=obj.Lambda, nu=obj.nu, ln_beta=obj.ln_beta)
    if k == "cond":
        if name in ("ConditionalIdentityGaussianPDF", "ConditionalIdentityDiagGaussianPDF"):
            return cls(Sigma=obj.Sigma)
        if name in ("ConditionalGaussianPDF", "ConditionalGaussianDiagPDF"):
            return cls(M=obj.M, b=obj.b, Sigma=obj.Sigma)
        return None
    if name == "OneRankFactor":
        return cls(v=obj.v, g=obj.g, nu=obj.nu, ln_beta=obj.ln_beta)
    if name == "LinearFactor":
        return cls(nu=obj.nu, ln_beta=obj.ln_beta)
    if name == "ConstantFactor":
        return cls(ln_beta=obj.ln_beta, num_dim=int(obj.D))
    if name == "ConjugateFactor":
        return cls(Lambda=obj.Lambda, nu=obj.nu, ln_beta=obj.ln_beta)
    return None


SPECIALISED = ("GaussianDiagMeasure", "GaussianDiagPDF", "ConditionalGaussianDiagPDF", "ConditionalIdentityGaussianPDF",
               "ConditionalIdentityDiagGaussianPDF", "OneRankFactor", "LinearFactor", "ConstantFactor", "NNControlGaussianConditional")


def generalise(obj, u=None):
    """swap_repr: the general full-matrix object carrying the same parameters (C15)."""
    L = lib()
    jnp = L["jnp"]
    name = type(obj).__name__
    F, Ms, P, C = L["factor"], L["measure"], L["pdf"], L["conditional"]
    if name == "GaussianDiagMeasure":
        return Ms.GaussianMeasure(Lambda=obj.Lambda, nu=obj.nu, ln_beta=obj.ln_beta)
    if name == "GaussianDiagPDF":
        return P.GaussianPDF(Sigma=obj.Sigma, mu=obj.mu)
    if name == "ConditionalGaussianDiagPDF":
        return C.ConditionalGaussianPDF(M=obj.M, b=obj.b, Sigma=obj.Sigma)
    if name in ("ConditionalIdentityGaussianPDF", "ConditionalIdentityDiagGaussianPDF"):
        R, D = int(obj.R), int(obj.Dy)
        return C.ConditionalGaussianPDF(M=jnp.tile(jnp.eye(D)[None], (R, 1, 1)), b=jnp.zeros((R, D)), Sigma=obj.Sigma)
    if name in ("OneRankFactor", "LinearFactor", "ConstantFactor"):
        return F.ConjugateFactor(Lambda=obj.Lambda, nu=obj.nu, ln_beta=obj.ln_beta)
    if name == "NNControlGaussianConditional":
        return obj.set_control_variable(u)
    return None


def restore(obj, via):
    jax = lib()["jax"]
    from .model import APPROX
    if ref.kind_of(obj) == "trunc" or type(obj).__name__ in APPROX:
        return None  # pytree / dict round trips are promised for factors, measures, densities, linear conditionals
    if via == "dict":
        if not hasattr(obj, "to_dict"):
            return None
        return type(obj).from_dict(obj.to_dict())
    if via == "flatten":
        leaves, treedef = jax.tree_util.tree_flatten(obj)
        return jax.tree_util.tree_unflatten(treedef, leaves)
    raise KeyError(via)


def same_function(check, new, old, salt, where):
    """Two objects evaluate to the same function (generic points) - used after evict / restore."""
    jnp = lib()["jnp"]
    k = ref.kind_of(old)
    if type(new) is not type(old):
        raise Violation(check + ".class", f"{type(old).__name__} -> {type(new).__name__}", where=where)
    if k == "cond":
        if type(old).__name__ == "NNControlGaussianConditional":
            return
        X = ref.generic_points(int(old.Dx), ("same", salt))[:3]
        ref.cmp_lin(check + ".cond_mu", A(new.get_conditional_mu(jnp.asarray(X))), A(old.get_conditional_mu(jnp.asarray(X))), floor=1e-3, where=where)
        ref.cmp_lin(check + ".cond_Sigma", A(new.Sigma), A(old.Sigma), where=where)
        return
    X = ref.points_for(old, ("same", salt)) if k in ("measure", "pdf") else ref.generic_points(int(old.D), ("same", salt))
    ref.cmp_log(check + ".evaluate_ln", A(ref.clone(new).evaluate_ln(jnp.asarray(X))), A(ref.clone(old).evaluate_ln(jnp.asarray(X))), where=where)


def apply(w, f, i):
    """Apply fault f before step i.  Raises Violation if the perturbation is observable."""
    kind = f["kind"]
    s = w.slots.get(f["slot"])
    if s is None or s.tainted:
        w.stats["fault_skipped"] += 1
        return
    obj = s.obj
    where = f"fault {kind} before step {i} slot {s.id}"
    before = ref.cache_mask(obj)
    desc = describe(s)

    def safe_query():
        try:
            return query(obj, f["q"], salt=(w.salt, i), u=s.u)
        except Exception as e:
            v = Violation("raise.warm." + f["q"], f"{type(e).__name__}: {str(e)[:200]}", where=where)
            ctx = {"op": "warm", "name": f["q"], "cls_a": s.cls, "mask_a": before, "kind_a": s.kind}
            if w.findings is not None and w.findings.match(w, ctx, v):
                w.stats["known_finding_hits"] += 1
                raise _Skip()
            raise v

    try:
        return _apply(w, f, i, kind, s, obj, where, before, desc, safe_query)
    except _Skip:
        return


class _Skip(Exception):
    pass


def _apply(w, f, i, kind, s, obj, where, before, desc, safe_query):
    fired = False
    if kind == "warm":
        snap = ref.snapshot(obj)
        safe_query()
        ref.I_imm(obj, snap, where=where, bitwise=f["q"] not in ("invert_lambda", "compute_lnZ", "compute_mu"))
        ref.I_coh(obj, where=where)
        fired = ref.cache_mask(obj) != before
    elif kind == "dup":
        c1 = safe_query()
        c2 = safe_query()
        if c1 is not None:
            if c1.dtype == bool:
                ref.cmp_bits("dup." + f["q"], c2, c1, where=where)
            elif f["q"] in ("log_integral", "log_integral_light", "evaluate_ln"):
                ref.cmp_log("dup." + f["q"], c2, c1, where=where)
            else:
                ref.cmp_lin("dup." + f["q"], c2, c1, floor=1e-300, where=where)
            if c1.tobytes() != c2.tobytes():
                w.stats["dup_not_bitwise"] += 1
        ref.I_coh(obj, where=where)
        fired = True
    elif kind == "evict":
        new = canonical_rebuild(obj)
        if new is None:
            w.stats["fault_skipped"] += 1
            return
        same_function("evict", new, obj, (w.salt, i), where)
        s.obj = new
        # a rebuilt density has its precision, information vector and normaliser recomputed from (Sigma, mu):
        # hidden state changed even though the cache mask is the same; a cold measure rebuilt cold did not change
        fired = ref.cache_mask(new) != before or s.kind != "measure"
    elif kind == "restore":
        try:
            new = restore(obj, f["via"])
        except Exception as e:
            v = Violation("raise.restore." + f["via"], f"{type(e).__name__}: {str(e)[:200]}", where=where, cls=s.cls)
            ctx = {"op": "restore", "name": f["via"], "cls_a": s.cls, "mask_a": before, "kind_a": s.kind}
            if w.findings is not None and w.findings.match(w, ctx, v):
                w.stats["known_finding_hits"] += 1
                return
            raise v
        if new is None:
            w.stats["fault_skipped"] += 1
            return
        same_function("restore." + f["via"], new, obj, (w.salt, i), where)
        ref.I_coh(new, where=where)
        s.obj = new
        fired = True
    elif kind == "swap":
        new = generalise(obj, s.u)
        if new is None:
            w.stats["fault_skipped"] += 1
            return
        s.obj = new
        s.u = None
        fired = True
    elif kind == "rekey":
        if s.kind != "pdf":
            w.stats["fault_skipped"] += 1
            return
        jnp = lib()["jnp"]
        obj.sample(jnp.asarray(np.asarray(f["key"], dtype=np.uint32)), int(f["n"]))
        fired = True
    else:
        raise KeyError(kind)
    if fired:
        w.stats["fault_fired." + kind] += 1
        w.last_fault[s.id] = kind + (":" + f.get("q", f.get("via", "")) if kind not in ("evict", "swap", "rekey") else "")
        w.fired = getattr(w, "fired", 0) + 1
    else:
        w.stats["fault_noop." + kind] += 1
    w.log.append((i, "fault", kind, f.get("q", f.get("via", "")), s.id, desc, describe(s)))
