"""./check <property|selftest> [--tier quick|thorough] [--seed N] [--runs N] [--workers N] [--replay file]"""
import argparse
import json
import os
import sys

sys.path.insert(0, os.path.dirname(os.path.dirname(os.path.abspath(__file__))))


def main(argv=None):
    ap = argparse.ArgumentParser()
    ap.add_argument("prop")
    ap.add_argument("--tier", default=os.environ.get("VERIF_TIER", "quick"), choices=["quick", "thorough"])
    ap.add_argument("--seed", type=int, default=int(os.environ.get("VERIF_SEED", "0") or 0))
    ap.add_argument("--runs", type=int, default=None)
    ap.add_argument("--workers", type=int, default=None)
    ap.add_argument("--wall", type=int, default=None)
    ap.add_argument("--replay", default=None)
    ap.add_argument("--short", action="store_true")
    a = ap.parse_args(argv)
    if a.prop == "selftest":
        from gtsim import selftest

        return selftest.main(short=a.short)
    if a.replay:
        from gtsim import rt

        rt.init_jax()
        from gtsim import engine, util

        record = json.load(open(a.replay))
        if os.sep + "findings" + os.sep in os.path.abspath(a.replay):
            # the stored history of an open known finding is replayed with the finding matcher off,
            # so that the recorded violation itself is shown
            os.environ["GTSIM_NO_FINDINGS"] = "1"
        v = engine.replay_record(record["property"], record)
        if v is None:
            print(f"replay {a.replay}: no violation")
            return 0
        print(f"VIOLATION property={record['property']} replay={a.replay}")
        print(f"  check={v.check}\n  {v.msg}")
        print("  detail=" + util.dumps({k: x for k, x in v.detail.items()})[:2000])
        return 1
    from gtsim import engine

    return engine.run_check(a.prop, a.tier, a.seed, runs=a.runs, workers=a.workers, wall=a.wall)


if __name__ == "__main__":
    sys.exit(main())
