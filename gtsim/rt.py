"""Runtime initialisation shared by every worker process.

Nothing here draws random numbers or reads a clock that influences a run.
"""
import os
import sys
import warnings

VERIF = os.path.dirname(os.path.dirname(os.path.abspath(__file__)))
_INIT = False


def tree_under_test():
    return os.environ.get("GTSIM_TREE", "/repo")


def init_jax():
    """Configure JAX (x64, CPU, single intra-op thread, persistent compilation cache)."""
    global _INIT
    if _INIT:
        return
    os.environ.setdefault("JAX_PLATFORMS", "cpu")
    flags = os.environ.get("XLA_FLAGS", "")
    if "xla_cpu_multi_thread_eigen" not in flags:
        os.environ["XLA_FLAGS"] = (
            flags + " --xla_cpu_multi_thread_eigen=false intra_op_parallelism_threads=1"
        ).strip()
    os.environ.setdefault("OMP_NUM_THREADS", "1")
    os.environ.setdefault("OPENBLAS_NUM_THREADS", "1")
    warnings.filterwarnings("ignore", category=SyntaxWarning)
    warnings.filterwarnings("ignore", category=DeprecationWarning)
    tree = tree_under_test()
    if tree != "/repo":
        sys.path.insert(0, tree)
    import jax

    jax.config.update("jax_enable_x64", True)
    cache = os.environ.get("GTSIM_JAXCACHE", os.path.join(VERIF, ".jaxcache"))
    if cache != "off":
        try:
            os.makedirs(cache, exist_ok=True)
            jax.config.update("jax_compilation_cache_dir", cache)
            jax.config.update("jax_persistent_cache_min_compile_time_secs", 0.0)
            jax.config.update("jax_persistent_cache_min_entry_size_bytes", -1)
        except Exception:
            pass
    import gaussian_toolbox

    where = os.path.realpath(os.path.dirname(gaussian_toolbox.__file__))
    want = os.path.realpath(os.path.join(tree, "gaussian_toolbox"))
    if where != want:
        raise RuntimeError(
            f"HARNESS: gaussian_toolbox imported from {where}, expected {want}"
        )
    _INIT = True
