"""Shrink a violation record while the same violation class (check id) persists.

1. drop perturbations (faults, flips, twin extras); 2. drop operations together with their
dependants (later records that use a removed slot); repeated to a fixed point under a time
budget.  Works on the self-contained record, never on generator code.
"""
import copy
import time

from . import model, util


def _deps_closed_removal(records, i):
    """Indices to remove when record i goes: i plus every later record using a slot it defines."""
    gone = {i}
    dead = set()
    if "out" in records[i]:
        dead.add(records[i]["out"])
    for j in range(i + 1, len(records)):
        r = records[j]
        if any(s in dead for s in model.operands(r)):
            gone.add(j)
            if "out" in r:
                dead.add(r["out"])
    return gone


def _attach(record):
    recs = copy.deepcopy(record["records"])
    faults = {int(k): v for k, v in record.get("faults", {}).items()}
    flips = set(record.get("flips", []))
    for i, r in enumerate(recs):
        r["_pre"] = faults.get(i, [])
        r["_flip"] = i in flips
    return recs


def _detach(record, recs):
    out = dict(record)
    faults, flips, clean = {}, [], []
    for i, r in enumerate(recs):
        r = dict(r)
        pre = r.pop("_pre", [])
        if pre:
            faults[str(i)] = pre
        if r.pop("_flip", False):
            flips.append(i)
        clean.append(r)
    out["records"] = clean
    out["faults"] = faults
    out["flips"] = flips
    return out


def minimise(mod, record, budget=90):
    t0 = time.time()
    target = record["violation"]["check"]

    def fails(rec):
        try:
            v = mod.replay(rec)
        except Exception:
            return None
        if v is not None and v.check == target:
            return v
        return None

    if "records" not in record:
        return record
    v0 = fails(record)
    if v0 is None:
        record = dict(record)
        record["minimise_note"] = "original record did not reproduce in the minimiser"
        return record
    recs = _attach(record)
    best = record

    def attempt(cand):
        nonlocal recs, best
        rec = _detach(record, cand)
        v = fails(rec)
        if v is not None:
            recs = cand
            rec["violation"] = {"check": v.check, "msg": v.msg, "detail": util.to_jsonable(v.detail)}
            best = rec
            return True
        return False

    # 1. perturbations
    if any(r["_pre"] or r["_flip"] for r in recs):
        cand = copy.deepcopy(recs)
        for r in cand:
            r["_pre"], r["_flip"] = [], False
        if not attempt(cand):
            for i in range(len(recs)):
                if time.time() - t0 > budget * 0.4:
                    break
                if recs[i]["_flip"]:
                    cand = copy.deepcopy(recs)
                    cand[i]["_flip"] = False
                    attempt(cand)
                k = 0
                while k < len(recs[i]["_pre"]):
                    cand = copy.deepcopy(recs)
                    del cand[i]["_pre"][k]
                    if not attempt(cand):
                        k += 1
    # 2. operations, last to first, to a fixed point
    changed = True
    while changed and time.time() - t0 < budget:
        changed = False
        i = len(recs) - 1
        while i >= 0 and time.time() - t0 < budget:
            gone = _deps_closed_removal(recs, i)
            cand = [copy.deepcopy(r) for j, r in enumerate(recs) if j not in gone]
            if cand and attempt(cand):
                changed = True
                i = min(i, len(recs)) - 1
            else:
                i -= 1
    best = dict(best)
    best["minimised"] = {"from_steps": len(record["records"]), "to_steps": len(best["records"]),
                         "seconds": round(time.time() - t0, 1)}
    return best
