"""Parallel seeded search: run seeds -> worker processes, budgets, aggregation, evidence.

The parent never imports JAX.  Workers are spawned (never forked) /venv/bin/python
interpreters.  Exit codes: 0 held; 1 violation; 2 harness error / timeout.
"""
import collections
import concurrent.futures as cf
import faulthandler
import json
import multiprocessing as mp
import os
import sys
import time
import traceback

from . import rt, util

SCENARIOS = {
    "C04": ("gtsim.scenarios.history", {"prop": "C04"}),
    "C02": ("gtsim.scenarios.history", {"prop": "C02"}),
    "C01": ("gtsim.scenarios.history", {"prop": "C01"}),
    "C19": ("gtsim.scenarios.history", {"prop": "C19"}),
    "C11": ("gtsim.scenarios.bayes", {"prop": "C11"}),
    "C15": ("gtsim.scenarios.history", {"prop": "C15"}),
    "C12": ("gtsim.scenarios.subbatch", {"prop": "C12"}),
    "C18": ("gtsim.scenarios.boundary", {"prop": "C18"}),
}

RUNS = {  # property -> (quick workloads, thorough workloads); quick aims at 40-60 s, thorough at 15-25 min on 16 idle cores
    "C04": (2000, 12000),
    "C02": (1000, 6000),
    "C01": (1600, 12000),
    "C19": (1000, 6000),
    "C11": (2500, 20000),
    "C15": (1600, 10000),
    "C12": (1200, 8000),
    "C18": (800, 4000),
}

PER_RUN_TIMEOUT = {"quick": 600, "thorough": 1800}
_BEACON_DIR = [None]


def _worker_init(beacon_dir=None):
    faulthandler.enable()
    _BEACON_DIR[0] = beacon_dir
    rt.init_jax()


def _beacon(seed):
    """Which seed this worker is executing right now - read by the parent if the worker dies."""
    if _BEACON_DIR[0]:
        try:
            with open(os.path.join(_BEACON_DIR[0], f"{os.getpid()}"), "w") as fh:
                fh.write(str(seed))
        except OSError:
            pass


def _load(prop):
    import importlib

    modname, kw = SCENARIOS[prop]
    return importlib.import_module(modname), kw


_SEEDS_RUN_IN_THIS_PROCESS = []


def worker_chunk(args):
    prop, tier, seeds = args
    mod, kw = _load(prop)
    out = []
    for seed in seeds:
        _beacon(seed)
        if os.environ.get("GTSIM_TEST_KILL") == str(seed):  # self-test of the pool-restart path only
            flag = os.environ.get("GTSIM_TEST_KILL_FLAG", "/tmp/gtsim_kill_flag")
            if os.environ.get("GTSIM_TEST_KILL_ALWAYS") or not os.path.exists(flag):
                open(flag, "w").close()
                os._exit(1)
        faulthandler.dump_traceback_later(PER_RUN_TIMEOUT.get(tier, 600), exit=True)
        try:
            r = mod.run(seed, tier, **kw)
        except Exception:
            from .scenarios import common

            r = common.new_result(seed)
            r["ok"] = False
            r["harness_error"] = traceback.format_exc()
        finally:
            faulthandler.cancel_dump_traceback_later()
        if r.get("violation"):
            # one seed is one execution - unless the library keeps process-global state; then the
            # seeds this worker ran before are part of the schedule and are recorded with the violation
            r["violation"]["prior_seeds_in_worker"] = list(_SEEDS_RUN_IN_THIS_PROCESS)
        _SEEDS_RUN_IN_THIS_PROCESS.append(int(seed))
        out.append(r)
    _beacon("idle")
    return out


def worker_minimise(args):
    prop, record, budget = args
    from . import minimise

    mod, kw = _load(prop)
    if hasattr(mod, "minimise"):
        return mod.minimise(record, budget)
    return minimise.minimise(mod, record, budget)


def replay_record(prop, record, with_history=None):
    """Replay in this process.  If the record says the violation needs the process history (library
    global state), first re-execute the seeds that the failing worker had run before it."""
    mod, kw = _load(prop)
    if with_history if with_history is not None else record.get("needs_process_history"):
        for sd in record.get("prior_seeds_in_worker", []):
            try:
                mod.run(sd, record.get("tier", "quick"), **kw)
            except Exception:
                pass
    return mod.replay(record)


def worker_replay(args):
    """Always runs in a FRESH interpreter process (own single-use pool)."""
    prop, record = args[:2]
    v = replay_record(prop, record, with_history=args[2] if len(args) > 2 else None)
    if v is None:
        return None
    return {"check": v.check, "msg": v.msg, "detail": util.to_jsonable(v.detail)}


def fresh_replay(prop, record, with_history=None):
    ctx = mp.get_context("spawn")
    with cf.ProcessPoolExecutor(max_workers=1, mp_context=ctx, initializer=_worker_init) as one:
        return one.submit(worker_replay, (prop, record, with_history)).result()


def worker_known(args):
    prop, entry = args
    mod, kw = _load(prop)
    path = os.path.join(rt.VERIF, entry["replay"])
    record = json.load(open(path))
    # the stored history must still fail the recorded way *with findings disabled*
    os.environ["GTSIM_NO_FINDINGS"] = "1"
    try:
        v = mod.replay(record)
    finally:
        os.environ.pop("GTSIM_NO_FINDINGS", None)
    if v is None:
        return {"id": entry["id"], "still_fails": False}
    return {"id": entry["id"], "still_fails": True, "check": v.check, "msg": v.msg,
            "same": any(v.check.startswith(p) for p in entry["checks"])}


class Budget(Exception):
    pass


def _read_beacons(d):
    out = []
    try:
        for f in os.listdir(d):
            v = open(os.path.join(d, f)).read().strip()
            if v and v != "idle":
                out.append(int(v))
    except Exception:
        pass
    return sorted(out)


def run_check(prop, tier="quick", base_seed=0, runs=None, workers=None, wall=None, out=sys.stdout):
    t0 = time.time()
    workers = workers or min(16, os.cpu_count() or 4)
    n = runs or RUNS[prop][0 if tier == "quick" else 1]
    wall = wall or (900 if tier == "quick" else 4 * 3600)
    seeds = [base_seed * (1 << 20) + i for i in range(n)]
    chunk = 4 if tier == "quick" else 16
    chunks = [seeds[i:i + chunk] for i in range(0, len(seeds), chunk)]
    agg = Agg(prop, tier, base_seed)
    ctx = mp.get_context("spawn")
    status = 0
    violations = []
    print(f"gtsim: property={prop} tier={tier} VERIF_SEED={base_seed} runs={n} workers={workers} tree={rt.tree_under_test()}", file=out, flush=True)
    import tempfile

    beacons = tempfile.mkdtemp(prefix="gtsim_beacon_")
    ex = cf.ProcessPoolExecutor(max_workers=workers, mp_context=ctx, initializer=_worker_init, initargs=(beacons,))
    try:
        remaining = set(range(len(chunks)))
        pool_restarts = 0
        while remaining:
            try:
                fut_idx = {ex.submit(worker_chunk, (prop, tier, chunks[i])): i for i in sorted(remaining)}
                pending = set(fut_idx)
                stop = False
                while pending and not stop:
                    left = wall - (time.time() - t0)
                    if left <= 0:
                        raise Budget()
                    done, pending = cf.wait(pending, timeout=min(left, 30), return_when=cf.FIRST_COMPLETED)
                    for f in done:
                        res = f.result()
                        remaining.discard(fut_idx[f])
                        for r in res:
                            agg.add(r)
                            if r.get("harness_error"):
                                print("HARNESS-ERROR seed=%d\n%s" % (r["seed"], r["harness_error"]), file=out, flush=True)
                                status = 2
                            elif not r["ok"]:
                                violations.append(r["violation"])
                    if len(violations) >= int(os.environ.get("GTSIM_MAXVIOL", "40")) or status == 2:
                        for p in pending:
                            p.cancel()
                        stop = True
                break
            except cf.process.BrokenProcessPool:
                # a worker died (per-run watchdog, OOM kill, ...): restart the pool ONCE for the unfinished
                # seeds; a second death is reported as a harness error (never as "held")
                pool_restarts += 1
                if pool_restarts > 1:
                    raise
                print(f"NOTE: a worker process died; restarting the pool once for {len(remaining)} unfinished chunks; "
                      f"seeds in flight: {_read_beacons(beacons)}", file=out, flush=True)
                ex.shutdown(wait=False, cancel_futures=True)
                ex = cf.ProcessPoolExecutor(max_workers=workers, mp_context=ctx, initializer=_worker_init, initargs=(beacons,))
        agg.extra["pool_restarts"] += pool_restarts
        # ---- violations: one per class, minimised, replay-verified
        if violations and status != 2:
            classes = collections.OrderedDict()
            for v in violations:
                classes.setdefault(v["violation"]["check"], v)
            todo = list(classes.values())[: int(os.environ.get("GTSIM_MAXCLASSES", "6"))]
            mins = list(ex.map(worker_minimise, [(prop, v, 90 if tier == "quick" else 240) for v in todo]))
            rdir = os.environ.get("GTSIM_REPLAY_DIR", os.path.join(rt.VERIF, "replays"))
            os.makedirs(rdir, exist_ok=True)
            for v, m in zip(todo, mins):
                rec = m or v
                if m is not None and m is not v:
                    # a minimised record must fail the same way in a FRESH process; if the violation
                    # depends on library process-global state the minimiser's own process history may
                    # have produced it - then fall back to the original record plus the worker's history
                    def _rep(r_, hist):
                        a_ = fresh_replay(prop, util.from_jsonable(util.to_jsonable(r_)) if False else json.loads(util.dumps(r_)), with_history=hist)
                        return a_ is not None and a_["check"] == r_["violation"]["check"]
                    if not _rep(m, None) and not (m.get("prior_seeds_in_worker") and _rep(m, True)):
                        rec = v
                path = os.path.join(rdir, f"{prop}-{rec['seed']}-{rec['violation']['check'].replace('/', '_')}.json")
                with open(path, "w") as fh:
                    fh.write(util.dumps(rec, indent=1))
                again = fresh_replay(prop, json.load(open(path)))
                ok = again is not None and again["check"] == rec["violation"]["check"]
                if not ok and rec.get("prior_seeds_in_worker"):
                    again = fresh_replay(prop, json.load(open(path)), with_history=True)
                    if again is not None and again["check"] == rec["violation"]["check"]:
                        rec["needs_process_history"] = True
                        with open(path, "w") as fh:
                            fh.write(util.dumps(rec, indent=1))
                        ok = "only-after-prior-seeds (library process-global state)"
                print(f"VIOLATION property={prop} replay={path}", file=out, flush=True)
                print(f"  check={rec['violation']['check']} seed={rec['seed']} steps={len(rec.get('records', []))} "
                      f"faults={sum(len(x) for x in rec.get('faults', {}).values())} replay_reproduces={ok}\n  {rec['violation']['msg'][:300]}", file=out, flush=True)
                agg.violation_files.append(path)
            status = 1
        # ---- known findings of this property: replay the stored histories
        from . import findings as F

        for e in F.load_all():
            if e.get("property") != prop:
                continue
            if e.get("status") == "fixed":
                # a fixed entry suppresses nothing: its stored history is a regression replay
                for rp in [e.get("replay")] + list(e.get("also", [])):
                    if not rp:
                        continue
                    path = os.path.join(rt.VERIF, rp)
                    again = list(ex.map(worker_replay, [(prop, json.load(open(path)))]))[0]
                    agg.extra["fixed_replays_run"] += 1
                    if again is not None:
                        print(f"VIOLATION property={prop} replay={path}", file=out, flush=True)
                        print(f"  fixed finding {e['id']} is back: check={again['check']} {again['msg'][:200]}", file=out, flush=True)
                        agg.violations += 1
                        status = max(status, 1)
            if e.get("status") == "open":
                r = list(ex.map(worker_known, [(prop, e)]))[0] if e.get("replay") else {"still_fails": True, "same": True}
                if r["still_fails"] and r.get("same", True):
                    print(f"KNOWN-FINDING: property={prop} {e['id']}: {e['text']}", file=out, flush=True)
                    agg.known_confirmed.append(e["id"])
                elif r["still_fails"]:
                    print(f"NOTE: finding {e['id']} now fails differently: {r.get('check')} {r.get('msg','')[:200]}", file=out, flush=True)
                else:
                    print(f"NOTE: finding {e['id']} no longer reproduces (appears fixed)", file=out, flush=True)
    except Budget:
        print(f"HARNESS-TIMEOUT wall budget {wall}s exhausted", file=out, flush=True)
        status = 2
    except cf.process.BrokenProcessPool:
        print(f"HARNESS-ERROR worker process died (per-run timeout or crash); seeds in flight: {_read_beacons(beacons)}", file=out, flush=True)
        status = 2
    finally:
        ex.shutdown(wait=True, cancel_futures=True)
        import shutil

        shutil.rmtree(beacons, ignore_errors=True)
    agg.write(time.time() - t0, status)
    print(f"gtsim: done status={status} runs={agg.n} wall={time.time()-t0:.1f}s nontrivial_distinct={len(agg.sigs)} "
          f"discarded={agg.discarded} known_hits={dict(agg.known_hits)}", file=out, flush=True)
    return status


class Agg:
    def __init__(self, prop, tier, seed):
        self.prop, self.tier, self.seed = prop, tier, seed
        self.n = 0
        self.stats = collections.Counter()
        self.reach = collections.Counter()
        self.sigs = set()
        self.states = set()
        self.inter = set()
        self.samples = []
        self.discarded = 0
        self.steps = 0
        self.known_hits = collections.Counter()
        self.known_confirmed = []
        self.violations = 0
        self.violation_files = []
        self.digest = []
        self.extra = collections.Counter()

    def add(self, r):
        self.n += 1
        self.stats.update(r.get("stats", {}))
        self.reach.update(r.get("reach", {}))
        self.sigs.update(r.get("sigs", []))
        self.states.update(r.get("states", []))
        self.inter.update(r.get("inter", []))
        self.discarded += r.get("discarded", 0)
        self.steps += r.get("steps", 0)
        self.known_hits.update(r.get("known_hits", {}))
        if r.get("sample") and len(self.samples) < 6:
            self.samples.append(r["sample"])
        if not r["ok"]:
            self.violations += 1
        self.digest.append((r["seed"], r.get("digest", "")))
        self.extra.update(r.get("extra", {}))

    def write(self, wall, status):
        from .manifest_text import RULES, ASSUMPTIONS

        faults = {k.split(".", 1)[1]: v for k, v in self.stats.items() if k.startswith("fault_fired.")}
        ops = {k.split(".", 1)[1]: v for k, v in self.stats.items() if k.startswith("op.")}
        checks = {k.split(".", 1)[1]: v for k, v in self.stats.items() if k.startswith("chk.")}
        cov = {
            "evaluations": int(self.n + self.stats.get("twins", 0)),
            "workloads": int(self.n),
            "perturbed_executions": int(self.stats.get("twins", 0)),
            "distinct_nontrivial": int(len(self.sigs)),
            "rule": RULES.get(self.prop, ""),
            "samples": self.samples[:6] or [{"note": "no sample captured"}],
            "exhaustive": False,
            "runs_per_hour": int((self.n + self.stats.get("twins", 0)) / max(wall, 1e-9) * 3600),
            "seeds_per_hour": int(self.n / max(wall, 1e-9) * 3600),
            "steps": int(self.steps),
            "simulated_time": "none - the library reads no clock; logical steps only",
            "faults_fired": faults,
            "faults_not_injectable": "message loss/delay, partitions, clock skew, slow nodes, disk errors, torn writes, failing allocations: the component does not exist in this library",
            "ops": ops,
            "assertions_evaluated": checks,
            "branch_reach": dict(self.reach),
            "distinct_state_signatures": int(len(self.states)),
            "distinct_interleavings": int(len(self.inter)),
            "discarded_illconditioned": int(self.discarded),
            "known_findings_hits": dict(self.known_hits),
            "known_findings_confirmed": sorted(set(self.known_confirmed)),
            "batch_digest": util.sha_bytes(repr(sorted(self.digest))),
            "real_components": ["gaussian_toolbox (all modules, from /repo working tree)", "jax / jaxlib / XLA CPU"],
            "stub_components": [],
            "extra": dict(self.extra),
            "other_counters": {k: v for k, v in self.stats.items() if not k.startswith(("op.", "chk.", "fault_fired."))},
        }
        ev = {
            "property_id": self.prop, "tier": self.tier, "seed": int(self.seed), "level": "exploration",
            "coverage": cov, "assumptions": ASSUMPTIONS.get(self.prop, []), "wall_s": round(wall, 2),
            "violations": int(self.violations),
        }
        edir = os.environ.get("GTSIM_EVIDENCE_DIR", os.path.join(rt.VERIF, "evidence"))  # experiments only
        os.makedirs(edir, exist_ok=True)
        with open(os.path.join(edir, f"{self.prop}.json"), "w") as fh:
            json.dump(ev, fh, indent=1, sort_keys=True)
