"""Seeded workload generator: swarm configuration + history of operation records.

The generator executes the records while it produces them (it needs the shapes and kinds of
the live objects), so the *baseline execution is the generation run*.
"""
import numpy as np

from . import model, ref
from .model import IDENT, exec_step
from .ref import IllConditioned, Violation
from .util import Rng

FACTOR_ROOTS = ["ConjugateFactor", "OneRankFactor", "LinearFactor", "ConstantFactor"]
MEASURE_ROOTS = ["GaussianMeasure", "GaussianDiagMeasure"]
PDF_ROOTS = ["GaussianPDF", "GaussianDiagPDF"]
APPROX_ROOTS = list(model.APPROX)
COND_ROOTS = ["ConditionalGaussianPDF", "ConditionalGaussianDiagPDF", "ConditionalIdentityGaussianPDF", "ConditionalIdentityDiagGaussianPDF"]

INTEGRATE_KEYS = [
    "1", "x", "(Ax+a)", "xx'", "(Ax+a)'(Bx+b)", "(Ax+a)(Bx+b)'", "(Ax+a)(Bx+b)'(Cx+c)",
    "(Ax+a)'(Bx+b)(Cx+c)'", "x(A'x + a)x'", "xb'xx'", "(Ax+a)'(Bx+b)(Cx+c)'(Dx+d)",
    "(Ax+a)(Bx+b)'(Cx+c)(Dx+d)'",
]

DEFAULT_WEIGHTS = {
    "root": 2.0, "slice": 2.0, "multiply": 5.0, "product": 1.5, "get_density": 2.0, "normalize": 1.0,
    "marginal": 1.0, "linear_sum": 0.7, "condition_on": 1.2, "cond_x": 1.5, "set_y": 1.2, "affine": 3.0,
    "update": 1.0, "update_sigma": 0.5, "obs": 6.0, "truncate": 0.8, "copy": 0.6, "replace": 1.0, "repeat": 1.2,
}


def swarm(seed, tier, profile="general"):
    """Per-run configuration: sizes, enabled operations, root classes, fault rates."""
    r = Rng(seed, "swarm")
    big = tier == "thorough"
    cfg = {
        "Rmax": r.integers(1, 6 if big else 4),
        "D": r.integers(1, 6 if big else 4) if r.coin(0.85) else 1,
        "Nmax": r.integers(1, 4),
        "length": r.integers(3, 12 if big else 8),
        "n_roots": r.integers(2, 4),
        "Rcap": 16 if big else 12,
        "cond_max": 10 ** r.uniform(0.5, 3.0),
        "profile": profile,
        "tier": tier,
    }
    wts = dict(DEFAULT_WEIGHTS)
    # swarm: drop a random subset of operation kinds, boost a few
    names = [k for k in wts if k not in ("root", "obs")]
    for k in names:
        u = r.g.random()
        if u < 0.3:
            wts[k] = 0.0
        elif u > 0.8:
            wts[k] *= 3.0
    if all(wts[k] == 0 for k in names):
        wts["multiply"] = 5.0
    if profile == "product":
        wts = {"root": 1.0, "slice": 1.0, "multiply": 9.0, "product": 2.0, "get_density": 1.0, "normalize": 1.0,
               "obs": 2.0, "repeat": 2.0, "update": 0.7}
        for k in ("slice", "product", "get_density", "normalize"):
            if r.coin(0.3):
                wts[k] = 0.0
    if profile == "sample":
        wts = {"root": 2.0, "slice": 2.0, "multiply": 1.0, "get_density": 2.5, "marginal": 1.5, "linear_sum": 1.0,
               "cond_x": 1.5, "affine": 2.5, "update": 1.5, "normalize": 0.5, "obs": 1.0, "sample": 8.0, "copy": 0.8}
        for k in ("slice", "multiply", "marginal", "linear_sum", "cond_x", "affine", "update"):
            if r.coin(0.3):
                wts[k] = 0.0
        cfg["cond_max"] = 10 ** r.uniform(0.5, 3.5)
        # the law must hold at every natural scale (tolerances are relative): tiny and large covariances
        cfg["scale"] = 10 ** r.uniform(-9, 3) if r.coin(0.5) else 1.0
        if cfg["scale"] != 1.0:
            # operations that add O(1) offsets (b of a linear image, conditioning points, conditional means)
            # would put means many standard deviations from the origin at tiny scales, where the information
            # form cancels catastrophically (floating-point limit): scaled runs keep to scale-preserving operations
            for k in ("linear_sum", "cond_x", "affine", "multiply"):
                wts[k] = 0.0
    cfg["weights"] = wts
    roots = []
    for grp, p in ((FACTOR_ROOTS, 0.8), (MEASURE_ROOTS, 0.8), (PDF_ROOTS, 0.8), (COND_ROOTS, 0.6)):
        for c in grp:
            if r.coin(p * 0.7):
                roots.append(c)
    if not any(c in roots for c in MEASURE_ROOTS + PDF_ROOTS):
        roots.append(r.choice(MEASURE_ROOTS + PDF_ROOTS))
    if profile in ("general", "boundary", "subbatch"):
        if r.coin(0.3):
            roots.append("NNControlGaussianConditional")
    if profile in ("general", "boundary", "subbatch"):
        for c in APPROX_ROOTS:
            if r.coin(0.2):
                roots.append(c)
    if profile == "general" and r.coin(0.15):
        # swarm focus: approximate conditionals, their moment-matched transformations, in-place updates of the
        # densities they were applied to, and re-issued transformations
        cfg["focus"] = "approx"
        roots = [r.choice(APPROX_ROOTS), r.choice(APPROX_ROOTS), "GaussianPDF", r.choice(PDF_ROOTS)]
        cfg["weights"] = {"root": 1.0, "affine": 6.0, "cond_x": 2.0, "update": 3.0, "repeat": 4.0, "replace": 1.5,
                          "slice": 0.5, "get_density": 0.5, "marginal": 0.5, "obs": 3.0, "copy": 0.3}
        cfg["Rmax"] = min(cfg["Rmax"], 3)
    if profile == "product":
        roots = [c for c in FACTOR_ROOTS + MEASURE_ROOTS + PDF_ROOTS if r.coin(0.75)]
        if not any(c in roots for c in MEASURE_ROOTS + PDF_ROOTS):
            roots.append(r.choice(MEASURE_ROOTS + PDF_ROOTS))
        if not any(c in roots for c in FACTOR_ROOTS):
            roots.append(r.choice(FACTOR_ROOTS))
    if profile == "repr":
        spec = ["GaussianDiagMeasure", "GaussianDiagPDF", "ConditionalGaussianDiagPDF", "ConditionalIdentityGaussianPDF",
                "ConditionalIdentityDiagGaussianPDF", "OneRankFactor", "LinearFactor", "ConstantFactor", "NNControlGaussianConditional"]
        roots = [c for c in spec if r.coin(0.6)]
        if not roots:
            roots = [r.choice(spec)]
        roots += [r.choice(["GaussianDiagPDF", "GaussianDiagMeasure", "GaussianPDF"])]
    cfg["roots"] = roots
    cfg["fault_rate"] = r.uniform(0.25, 0.7)
    return cfg


class Gen:
    def __init__(self, seed, cfg, world):
        self.r = Rng(seed, "workload")
        self.cfg = cfg
        self.w = world
        self.records = []
        self.next_id = 0
        self.discarded = 0
        self.known_stops = 0

    # -- helpers -----------------------------------------------------------------------
    def nid(self):
        self.next_id += 1
        return self.next_id - 1

    def pick(self, kinds=None, pred=None):
        c = self.w.live(kinds, pred)
        if not c:
            return None
        c.sort(key=lambda s: s.id)
        # prefer recently created objects so that histories chain
        wts = [1.0 + 2.0 * (k + 1) / len(c) for k in range(len(c))]
        return self.r.wchoice(c, wts)

    def emit(self, rec):
        """Execute and keep the record; roll back an operation that leaves the envelope."""
        i = len(self.records)
        ids_before = set(self.w.slots)
        self.records.append(rec)  # kept on a Violation so that the record reproduces it
        try:
            exec_step(self.w, rec, i)
        except (IllConditioned, model.KnownFindingStop) as e:
            self.records.pop()
            if isinstance(e, model.KnownFindingStop):
                self.known_stops += 1
            for sid in set(self.w.slots) - ids_before:
                del self.w.slots[sid]
            for k in [k for k in self.w.outputs if k[0] == i]:
                del self.w.outputs[k]
            self.discarded += isinstance(e, IllConditioned) and "copy unsupported" not in str(e)
            if rec["op"] in model.MUTATORS:
                # a mutator cannot be rolled back: stop the history here, keep the record out
                raise
            return False
        return True

    def dims(self):
        ds = sorted({s.D for s in self.w.live(("factor", "measure", "pdf"))})
        return ds or [self.cfg["D"]]

    # -- operations --------------------------------------------------------------------
    def g_root(self, cls=None, R=None, D=None, Dx=None):
        r, cfg = self.r, self.cfg
        cls = cls or r.choice(cfg["roots"])
        R = R or r.integers(1, cfg["Rmax"])
        if D is None:
            D = r.choice(self.dims()) if r.coin(0.8) else r.integers(1, max(cfg["D"], 1))
        if cls in model.APPROX:
            R = 1
        if model.KIND[cls] == "cond" and cls not in IDENT:
            Dx = Dx or (r.choice(self.dims()) if r.coin(0.7) else r.integers(1, cfg["D"]))
            D = r.integers(1, max(cfg["D"], 1)) if D is None or r.coin(0.5) else D
        if cls == "NNControlGaussianConditional":
            Dy, Du = D, r.integers(1, 3)
            Ru = R
            kw = {"Sigma": r.spd(1, Dy, cfg["cond_max"]), "num_cond_dim": int(Dx), "num_control_dim": int(Du),
                  "W": r.normal((Du, Dy * (Dx + 1)), 0.8), "c": r.normal((Dy * (Dx + 1),), 0.5)}
            return {"op": "root", "cls": cls, "kw": kw, "u": r.normal((Ru, Du), 1.0), "variant": "nn", "out": self.nid()}
        kw, variant = model.gen_root(r, cls, R, D, Dx=Dx, cond_max=cfg["cond_max"], scale=cfg.get("scale", 1.0))
        return {"op": "root", "cls": cls, "kw": kw, "variant": variant, "out": self.nid()}

    def g_slice(self):
        s = self.pick(pred=lambda s: s.u is None and s.cls not in model.APPROX and s.kind != "trunc")
        if s is None:
            return None
        return {"op": "slice", "a": s.id, "idx": self.r.idx_array(s.R, maxlen=min(s.R + 1, 5)), "out": self.nid()}

    def g_multiply(self):
        r = self.r
        u = self.pick(("measure", "pdf"))
        if u is None:
            return None
        how = r.wchoice(["multiply", "star", "hadamard"], [3, 1, 2])
        D, R1 = u.D, u.R
        if how == "hadamard":
            pred = lambda s: s.D == D and (s.R == R1 or s.R == 1 or R1 == 1) and max(s.R, R1) <= self.cfg["Rcap"]
        else:
            pred = lambda s: s.D == D and s.R * R1 <= self.cfg["Rcap"]
        f = self.pick(("factor", "measure", "pdf") if r.coin(0.8) else ("factor",), pred)
        if f is None:
            cls = r.choice(FACTOR_ROOTS)
            R2 = r.choice([R1, 1]) if how == "hadamard" else r.integers(1, max(1, min(self.cfg["Rmax"], self.cfg["Rcap"] // R1)))
            root = self.g_root(cls, R=R2, D=D)
            if not self.emit(root):
                return None
            fid = root["out"]
        else:
            fid = f.id
        return {"op": "multiply", "a": u.id, "f": fid, "how": how, "uf": r.coin(0.6), "out": self.nid()}

    def g_product(self):
        s = self.pick(("measure", "pdf", "factor"), lambda s: s.cls != "ConstantFactor" or True)
        if s is None:
            return None
        return {"op": "product", "a": s.id, "out": self.nid()}

    def g_get_density(self):
        s = self.pick(("measure", "pdf"))
        return None if s is None else {"op": "get_density", "a": s.id, "out": self.nid()}

    def aliased(self):
        """ids of measures a truncated object keeps a reference to: an in-place mutator would change the
        derived object behind its back (aliasing, outside every property) - never generated."""
        out = set()
        for t in self.w.slots.values():
            if t.kind == "trunc":
                for s in self.w.slots.values():
                    if s.obj is t.obj.measure or s.obj is getattr(t.obj, "density", None):
                        out.add(s.id)
        return out

    def used_before(self):
        """ids of objects that already served as operands of constructive operations: mutating exactly those
        in place is what exposes state memoised on (or about) them"""
        out = set()
        for rec in self.records:
            if rec["op"] not in ("root", "obs") and rec["op"] not in model.MUTATORS:
                out.update(model.operands(rec))
        return out

    def g_normalize(self):
        al = self.aliased()
        ub = self.used_before()
        s = (self.pick(("measure", "pdf"), lambda s: s.id not in al and s.id in ub) if self.r.coin(0.5) else None) \
            or self.pick(("measure", "pdf"), lambda s: s.id not in al)
        return None if s is None else {"op": "normalize", "a": s.id}

    def g_marginal(self):
        s = self.pick(("pdf",))
        if s is None:
            return None
        k = self.r.integers(1, s.D)
        return {"op": "marginal", "a": s.id, "dims": self.r.perm(s.D)[:k], "out": self.nid()}

    def g_linear_sum(self):
        s = self.pick(("pdf",))
        if s is None:
            return None
        r = self.r
        k = r.integers(1, s.D)
        shared = r.coin(0.3)
        W = np.stack([r.orth(s.D)[:k] * r.uniform(0.5, 2.0, (k, 1)) for _ in range(s.R)])
        rec = {"op": "linear_sum", "a": s.id, "W": W, "b": r.normal((s.R, k)) if r.coin(0.7) else None, "out": self.nid()}
        return rec

    def g_condition_on(self):
        s = self.pick(("pdf",), lambda s: s.D >= 2 and s.cls == "GaussianPDF")
        if s is None:
            return None
        r = self.r
        k = r.integers(1, s.D - 1)
        p = r.perm(s.D)
        rec = {"op": "condition_on", "a": s.id, "dims": p[:k], "out": self.nid()}
        if r.coin(0.35):
            rest = p[k:]
            rec["dims_x"] = [rest[j] for j in r.perm(len(rest))]
        return rec

    def g_cond_x(self):
        c = self.pick(("cond",))
        if c is None:
            return None
        N = self.r.integers(1, max(1, min(self.cfg["Nmax"], self.cfg["Rcap"] // c.R)))
        if c.u is not None and c.R > 1 and self.cfg["profile"] == "subbatch":
            return None
        return {"op": "cond_x", "a": c.id, "x": self.r.normal((N, int(c.obj.Dx)), 1.5), "call": self.r.coin(0.3), "out": self.nid()}

    def g_set_y(self):
        c = self.pick(("cond",), lambda s: s.cls not in model.APPROX)
        if c is None:
            return None
        N = c.R if c.R > 1 else self.r.integers(1, self.cfg["Nmax"])
        return {"op": "set_y", "a": c.id, "y": self.r.normal((N, int(c.obj.Dy)), 1.5), "out": self.nid()}

    def g_affine(self):
        r = self.r
        c = self.pick(("cond",))
        if c is None:
            # create a conditional matching an existing density
            p = self.pick(("pdf",))
            if p is None:
                return None
            cls = r.choice(COND_ROOTS)
            R = 1 if p.R > 1 else r.integers(1, self.cfg["Rmax"])
            if cls in IDENT:
                root = self.g_root(cls, R=R, D=p.D)
            else:
                root = self.g_root(cls, R=R, D=r.integers(1, max(1, self.cfg["D"])), Dx=p.D)
            if not self.emit(root):
                return None
            c = self.w.slots[root["out"]]
        Dx = int(c.obj.Dx)
        single = c.cls in model.HETERO  # heteroscedastic transformations: one prior component (model restriction)
        p = self.pick(("pdf",), lambda s: s.D == Dx and (s.R == 1 or (c.R == 1 and not single)) and s.R * c.R <= self.cfg["Rcap"])
        if p is None:
            R = r.integers(1, self.cfg["Rmax"]) if (c.R == 1 and not single) else 1
            root = self.g_root(r.choice(PDF_ROOTS), R=R, D=Dx)
            if not self.emit(root):
                return None
            p = self.w.slots[root["out"]]
        if c.cls in model.HETERO and not self.hetero_well_conditioned(c, p):
            return None
        which = r.choice(["joint", "marginal", "conditional"])
        return {"op": "affine", "a": c.id, "p": p.id, "which": which, "out": self.nid()}

    @staticmethod
    def hetero_well_conditioned(c, p):
        """Generator-side envelope for heteroscedastic moment matching: the link moments are
        exp(w'mu + w0 +- w'Sigma w / 2); beyond a few units their differences cancel catastrophically
        (cosh-1, exp) and amplify rounding far above 1e-8 - a numerical limit, not a property question."""
        Wm = ref.A(c.obj.W)
        Sig, mu = ref.A(p.obj.Sigma), ref.A(p.obj.mu)
        w = Wm[:, 1:]
        s2 = np.einsum("kd,rde,ke->rk", w, Sig, w)
        h = mu @ w.T + Wm[:, 0][None]
        return bool(np.max(s2) <= 2.0 and np.max(np.abs(h)) <= 3.0)

    def g_update(self):
        r = self.r
        al = self.aliased()
        ub = self.used_before()
        a = (self.pick(("pdf",), lambda s: s.id not in al and s.id in ub) if r.coin(0.6) else None) \
            or self.pick(("pdf",), lambda s: s.id not in al)
        if a is None:
            return None
        k = r.integers(1, a.R)
        idx = r.perm(a.R)[:k]
        d = self.pick(("pdf",), lambda s: s.D == a.D and s.R == k and s.cls == a.cls and s.id != a.id)
        if d is None:
            root = self.g_root(a.cls, R=k, D=a.D)
            if not self.emit(root):
                return None
            did = root["out"]
        else:
            did = d.id
        return {"op": "update", "a": a.id, "d": did, "idx": idx}

    def g_update_sigma(self):
        ub = self.used_before()
        c = (self.pick(("cond",), lambda s: s.cls not in model.HETERO and s.id in ub) if self.r.coin(0.6) else None) \
            or self.pick(("cond",), lambda s: s.cls not in model.HETERO)
        if c is None:
            return None
        diag = "Diag" in c.cls
        R = 1 if c.u is not None else c.R
        return {"op": "update_sigma", "a": c.id, "Sigma": self.r.spd(R, int(c.obj.Dy), self.cfg["cond_max"], diag=diag)}

    def g_copy(self):
        s = self.pick(pred=lambda s: s.kind != "trunc")
        if s is None:
            return None
        return {"op": "copy", "a": s.id, "how": self.r.wchoice(["copy", "deepcopy", "pickle"], [3, 1, 1]), "out": self.nid()}

    def g_repeat(self):
        """Re-issue an earlier constructive operation on the same operand objects - preferably one whose
        operand was mutated in place since (stale memo / cache carried across an update), otherwise any
        (same call, other cache state)."""
        r = self.r
        cands, pref = [], []
        for i, rec in enumerate(self.records):
            if rec["op"] in ("root", "obs", "copy", "replace") or rec["op"] in model.MUTATORS or "out" not in rec:
                continue
            ops = model.operands(rec)
            if not ops or any(sid not in self.w.slots or self.w.slots[sid].tainted for sid in ops):
                continue
            mutated = any(y["op"] in model.MUTATORS and y.get("a") in ops for y in self.records[i + 1:])
            (pref if mutated else cands).append(rec)
        pool = pref if pref and r.coin(0.8) else (pref + cands)
        if not pool:
            return None
        src = r.choice(pool)
        rec = {k: v for k, v in src.items() if k not in ("_i", "_tw", "out", "repeat")}
        rec["out"] = self.nid()
        rec["repeat"] = True
        return rec

    def g_replace(self):
        r = self.r
        ok = lambda s: s.kind != "trunc" and s.u is None and s.cls not in IDENT and s.cls != "LSEMGaussianConditional"
        # prefer objects whose lazy caches are already filled: a functional update must not carry them over
        s = (self.pick(pred=lambda s: ok(s) and s.kind == "measure" and s.obj.__dict__.get("lnZ") is not None)
             if r.coin(0.5) else None) or self.pick(pred=ok)
        if s is None:
            return None
        o = s.obj
        if s.kind == "pdf":
            field, val = "mu", r.normal((s.R, s.D), 1.2)
        elif s.kind == "measure":
            field = r.choice(["nu", "ln_beta"])
            val = r.normal((s.R, s.D)) if field == "nu" else r.normal((s.R,))
        elif s.cls == "ConjugateFactor":
            field = r.choice(["nu", "ln_beta", "Lambda"])
            val = {"nu": lambda: r.normal((s.R, s.D)), "ln_beta": lambda: r.normal((s.R,)),
                   "Lambda": lambda: r.spd(s.R, s.D, self.cfg["cond_max"])}[field]()
        elif s.cls == "OneRankFactor":
            # in the representation-twin profile the general-class twin has no v / g: only shared fields
            field = r.choice(["nu", "ln_beta"] if self.cfg["profile"] == "repr" else ["v", "g", "nu", "ln_beta"])
            val = {"v": lambda: r.normal((s.R, s.D)), "g": lambda: r.uniform(0.1, 2.5, (s.R,)),
                   "nu": lambda: r.normal((s.R, s.D)), "ln_beta": lambda: r.normal((s.R,))}[field]()
        elif s.cls == "LinearFactor":
            field = r.choice(["nu", "ln_beta"])
            val = r.normal((s.R, s.D)) if field == "nu" else r.normal((s.R,))
        elif s.cls == "ConstantFactor":
            field, val = "ln_beta", r.normal((s.R,))
        elif s.kind == "cond":
            fields = ["M", "b"] + (["A", "W"] if s.cls in model.HETERO else [])
            field = r.choice(fields)
            cur = ref.A(getattr(o, field))
            val = cur + r.normal(cur.shape, 0.3) if field != "A" else cur * r.uniform(0.7, 1.3, cur.shape)
        else:
            return None
        return {"op": "replace", "a": s.id, "field": field, "value": np.asarray(val, dtype=np.float64), "out": self.nid()}

    def g_truncate(self):
        r = self.r
        m = self.pick(("measure", "pdf"), lambda s: s.D == 1)
        if m is None:
            if not r.coin(0.5):
                return None
            root = self.g_root(r.choice(MEASURE_ROOTS + PDF_ROOTS), D=1)
            if not self.emit(root):
                return None
            m = self.w.slots[root["out"]]
        o = m.obj
        Lam, nu = ref.A(o.Lambda)[:, 0, 0], ref.A(o.nu)[:, 0]
        mu, sd = nu / Lam, 1.0 / np.sqrt(Lam)
        # limits stay within a few standard deviations of the mode: far-tail cdf differences cancel
        lo = mu + sd * r.uniform(-2.5, 0.5, (m.R,))
        hi = lo + sd * r.uniform(0.7, 3.0, (m.R,))
        side = r.wchoice(["both", "lower", "upper", "mixed"], [3, 1, 1, 2])
        if side == "mixed":
            # per-component limits: some components one-sided (infinite limit), others two-sided
            for k in range(m.R):
                u = r.g.random()
                if u < 0.3:
                    lo[k] = -np.inf
                elif u < 0.6:
                    hi[k] = np.inf
        rec = {"op": "truncate", "a": m.id, "pdf": r.coin(0.4), "out": self.nid(),
               "lower": lo[:, None] if side in ("both", "lower", "mixed") else None,
               "upper": hi[:, None] if side in ("both", "upper", "mixed") else None}
        return rec

    # observers
    def coefs(self, key, D, R, per_component=False):
        r = self.r
        K, L, M = (r.integers(1, 3) for _ in range(3))

        # per_component: False (all shared), True (all per component), "mat" (matrices per component, vectors
        # shared), "vec" (vectors per component, matrices shared) - all documented coefficient layouts
        pm = per_component in (True, "mat")
        pv = per_component in (True, "vec")

        def mat(k):
            return r.normal((R, k, D) if pm else (k, D), 0.8)

        def vec(k):
            return r.normal((R, k) if pv else (k,), 0.8)

        if key in ("1", "x", "xx'"):
            return {}
        if key == "(Ax+a)":
            return {"A_mat": mat(K), "a_vec": vec(K)}
        if key == "(Ax+a)'(Bx+b)":
            return {"A_mat": mat(K), "a_vec": vec(K), "B_mat": mat(K), "b_vec": vec(K)}
        if key == "(Ax+a)(Bx+b)'":
            return {"A_mat": mat(K), "a_vec": vec(K), "B_mat": mat(L), "b_vec": vec(L)}
        if key == "(Ax+a)(Bx+b)'(Cx+c)":
            return {"A_mat": mat(K), "a_vec": vec(K), "B_mat": mat(L), "b_vec": vec(L), "C_mat": mat(L), "c_vec": vec(L)}
        if key == "(Ax+a)'(Bx+b)(Cx+c)'":
            return {"A_mat": mat(K), "a_vec": vec(K), "B_mat": mat(K), "b_vec": vec(K), "C_mat": mat(L), "c_vec": vec(L)}
        if key == "x(A'x + a)x'":
            return {"A_mat": mat(1), "a_vec": vec(1)}
        if key == "xb'xx'":
            return {"b_vec": r.normal((R, D) if pv else (D,), 0.8)}
        if key == "(Ax+a)'(Bx+b)(Cx+c)'(Dx+d)":
            return {"A_mat": mat(K), "a_vec": vec(K), "B_mat": mat(K), "b_vec": vec(K),
                    "C_mat": mat(L), "c_vec": vec(L), "D_mat": mat(L), "d_vec": vec(L)}
        if key == "(Ax+a)(Bx+b)'(Cx+c)(Dx+d)'":
            return {"A_mat": mat(K), "a_vec": vec(K), "B_mat": mat(L), "b_vec": vec(L),
                    "C_mat": mat(L), "c_vec": vec(L), "D_mat": mat(M), "d_vec": vec(M)}
        raise KeyError(key)

    def fresh_pdf(self, D, R=None):
        root = self.g_root(self.r.choice(PDF_ROOTS), R=R or self.r.integers(1, self.cfg["Rmax"]), D=D)
        if not self.emit(root):
            return None
        return self.w.slots[root["out"]]

    def g_obs(self):
        r = self.r
        s = self.pick()
        if s is None:
            return None
        rec = {"op": "obs", "a": s.id}
        if s.kind == "trunc":
            name = r.wchoice(["trunc_call", "trunc_integrate", "trunc_density_call"], [2, 4, 1])
            rec["name"] = name
            if name == "trunc_integrate":
                rec["key"] = r.choice(["1", "x", "x**2", "x**k"])
                if rec["key"] == "x**k":
                    rec["k"] = r.integers(0, 5)
            else:
                ew = name == "trunc_call" and r.coin(0.25)
                o = s.obj.measure
                mu = ref.A(o.nu)[:, 0] / ref.A(o.Lambda)[:, 0, 0]
                sd = 1.0 / np.sqrt(ref.A(o.Lambda)[:, 0, 0])
                N = s.R if ew else r.integers(1, 4)
                rec["x"] = (np.mean(mu) + np.max(sd) * r.normal((N, 1), 1.5))
                rec["ew"] = ew
            return rec
        if s.kind == "factor":
            name = r.wchoice(["evaluate_ln", "evaluate", "attrs", "to_dict"], [4, 1, 2, 1])
        elif s.kind == "measure":
            name = r.wchoice(["evaluate_ln", "call", "integrate", "integrate_log", "log_integral", "log_integral_light",
                              "integral", "integral_light", "attrs", "to_dict"], [3, 1, 6, 1, 2, 2, 1, 1, 2, 0.5])
        elif s.kind == "pdf":
            name = r.wchoice(["evaluate_ln", "integrate", "integrate_log", "log_integral", "entropy", "kl", "attrs",
                              "is_normalized", "to_dict"], [3, 6, 1, 1, 1, 1.5, 2, 0.5, 0.5])
        elif s.cls in model.HETERO:
            name = r.wchoice(["get_conditional_mu", "integrate_log_conditional_y", "attrs"], [2, 1.5, 1])
        elif s.cls in model.FEATURE:
            name = r.wchoice(["get_conditional_mu", "integrate_log_conditional", "integrate_log_conditional_y", "attrs"], [2, 1, 1, 1])
        else:
            name = r.wchoice(["get_conditional_mu", "conditional_entropy", "mutual_information",
                              "integrate_log_conditional", "integrate_log_conditional_y", "attrs"], [2, 1, 1, 1.5, 1.5, 2 if s.u is None else 0])
        rec["name"] = name
        if name in ("evaluate_ln", "evaluate", "call"):
            ew = r.coin(0.25)
            N = s.R if ew else r.integers(1, 4)
            rec["x"] = r.normal((N, s.D), 1.5)
            rec["ew"] = ew
        elif name == "integrate":
            rec["key"] = r.choice(INTEGRATE_KEYS)
            rec["kw"] = self.coefs(rec["key"], s.D, s.R, per_component=r.wchoice([False, True, "mat", "vec"], [5, 2, 1.5, 1.5]))
        elif name == "integrate_log":
            f = self.pick(("factor", "measure", "pdf"), lambda t: t.D == s.D and t.R in (1, s.R))
            if f is None:
                return None
            rec["f"] = f.id
        elif name == "kl":
            q = self.pick(("pdf",), lambda t: t.D == s.D and (t.R == s.R or t.R == 1 or s.R == 1))
            if q is None:
                return None
            rec["q"] = q.id
        elif name == "get_conditional_mu":
            rec["x"] = r.normal((r.integers(1, 3), int(s.obj.Dx)), 1.5)
        elif name in ("conditional_entropy", "mutual_information"):
            Dx = int(s.obj.Dx)
            p = self.pick(("pdf",), lambda t: t.D == Dx and (t.R == 1 or s.R == 1))
            if p is None:
                p = self.fresh_pdf(Dx, 1 if s.R > 1 else None)
                if p is None:
                    return None
            rec["p"] = p.id
        elif name == "integrate_log_conditional":
            Dxy = int(s.obj.Dx) + int(s.obj.Dy)
            if s.R != 1:
                return None
            p = self.pick(("pdf",), lambda t: t.D == Dxy)
            if p is None:
                p = self.fresh_pdf(Dxy)
                if p is None:
                    return None
            rec["p"] = p.id
        elif name == "integrate_log_conditional_y":
            Dx = int(s.obj.Dx)
            if s.R != 1:
                return None
            p = self.pick(("pdf",), lambda t: t.D == Dx)
            if p is None:
                p = self.fresh_pdf(Dx)
                if p is None:
                    return None
            if s.cls in model.HETERO and not self.hetero_well_conditioned(s, p):
                return None
            rec["p"] = p.id
            rec["y"] = r.normal((p.R, int(s.obj.Dy)), 1.5)
            rec["callable"] = r.coin(0.4) and s.cls not in model.HETERO
        return rec

    def g_sample(self):
        r = self.r
        s = self.pick(("pdf",))
        if s is None:
            return None
        prev = [x for x in self.records if x.get("name") == "sample" and x["a"] == s.id
                and not any(y["op"] in model.MUTATORS and y.get("a") == s.id for y in self.records[self.records.index(x):])]
        if prev and r.coin(0.3):
            p = r.choice(prev)  # replay an earlier (density, key, n): must be bit-identical
            return {"op": "obs", "a": s.id, "name": "sample", "key": list(p["key"]), "n": p["n"], "jit": p.get("jit", False), "dup_of": self.records.index(p)}
        n = r.wchoice([r.integers(1, 8), r.integers(8, 64), 20000 if self.cfg.get("tier") != "thorough" else 200000], [3, 5, 0.35])
        key = [int(r.g.integers(0, 2 ** 32)), int(r.g.integers(0, 2 ** 32))]
        return {"op": "obs", "a": s.id, "name": "sample", "key": key, "n": int(n), "jit": r.coin(0.12)}

    # -- driver ------------------------------------------------------------------------
    def history(self):
        cfg, r = self.cfg, self.r
        for _ in range(cfg["n_roots"]):
            self.emit(self.g_root())
        names = [k for k, v in cfg["weights"].items() if v > 0]
        wts = [cfg["weights"][k] for k in names]
        tries = 0
        n_ops = 0
        while n_ops < cfg["length"] and tries < cfg["length"] * 6:
            tries += 1
            name = r.wchoice(names, wts)
            rec = getattr(self, "g_" + name)()
            if rec is None:
                continue
            if self.emit(rec):
                n_ops += 1
        # close the history with observations of everything still alive
        for s in sorted(self.w.live(), key=lambda s: s.id)[-4:]:
            if s.kind == "trunc":
                o = s.obj.measure
                mu = ref.A(o.nu)[:, 0] / ref.A(o.Lambda)[:, 0, 0]
                sd = 1.0 / np.sqrt(ref.A(o.Lambda)[:, 0, 0])
                key = r.choice(["1", "x", "x**2", "x**k"])
                rec = {"op": "obs", "a": s.id, "name": "trunc_integrate", "key": key}
                if key == "x**k":
                    rec["k"] = r.integers(0, 5)
                self.emit(rec)
                self.emit({"op": "obs", "a": s.id, "name": "trunc_call", "x": np.mean(mu) + np.max(sd) * r.normal((3, 1), 1.5), "ew": False})
                continue
            if s.kind == "cond":
                self.emit({"op": "obs", "a": s.id, "name": "get_conditional_mu", "x": r.normal((2, int(s.obj.Dx)), 1.5)})
            if s.u is not None:
                continue  # the NN-controlled object itself is not a batch of R_u components
            rec = {"op": "obs", "a": s.id, "name": "attrs"}
            self.emit(rec)
            if s.kind in ("measure", "pdf", "factor"):
                self.emit({"op": "obs", "a": s.id, "name": "evaluate_ln", "x": r.normal((3, s.D), 1.5), "ew": False})
            if s.kind in ("measure", "pdf"):
                self.emit({"op": "obs", "a": s.id, "name": "log_integral"})
                key = r.choice(INTEGRATE_KEYS)
                self.emit({"op": "obs", "a": s.id, "name": "integrate", "key": key,
                           "kw": self.coefs(key, s.D, s.R, per_component=r.wchoice([False, True, "mat", "vec"], [5, 2, 1.5, 1.5]))})
        return self.records


def fault_schedule(seed, k, records, cfg, kinds=("warm", "dup", "evict"), restore_vias=(), slot_cls=None):
    """Fault sub-stream k for one workload: faults placed between the creation of an object
    and one of its next uses as an operand (never on objects that are not used again)."""
    r = Rng(seed, "faults", k)
    uses = {}  # slot -> steps where used as operand
    born = {}
    for i, rec in enumerate(records):
        for sid in model.operands(rec):
            uses.setdefault(sid, []).append(i)
        if "out" in rec:
            born[rec["out"]] = i
    faults = {}
    n = 0
    swapped = set()
    rate = cfg.get("fault_rate", 0.5)
    if "swap" in kinds:
        rate = max(rate, 0.6) / 0.6 * r.choice([0.3, 0.6, 1.0])
    for sid in sorted(uses):
        for step in uses[sid]:
            if not r.coin(rate * 0.6):
                continue
            kind = r.choice(list(kinds) + (["restore"] if restore_vias else []))
            if kind == "swap":
                from .perturb import SPECIALISED
                if slot_cls is None or slot_cls.get(sid) not in SPECIALISED or sid in swapped:
                    continue
                swapped.add(sid)
            f = {"kind": kind, "slot": sid}
            if kind == "rekey":
                f["key"] = [int(r.g.integers(0, 2 ** 32)), int(r.g.integers(0, 2 ** 32))]
                f["n"] = r.integers(1, 16)
            if kind in ("warm", "dup"):
                from .perturb import WARM_QUERIES
                f["q"] = r.choice(WARM_QUERIES)
            if kind == "restore":
                f["via"] = r.choice(list(restore_vias))
            faults.setdefault(step, []).append(f)
            n += 1
    return faults, n
