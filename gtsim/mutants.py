"""Seeded-defect bookkeeping.

  python -m gtsim.mutants confirm <src_dir> <id> <property>   # scratch worktree: demo fails with / passes without, suite passes with
  python -m gtsim.mutants detect <id> [props...]             # apply seeded/<id>/patch.diff to /repo, run quick checks, undo
  python -m gtsim.mutants table                               # summary of seeded/*/meta.json
"""
import json
import os
import shutil
import subprocess
import sys
import time

VERIF = os.path.dirname(os.path.dirname(os.path.abspath(__file__)))
SEEDED = os.path.join(VERIF, "seeded")
PY = "/venv/bin/python"


def sh(cmd, cwd=None, env=None, timeout=3600):
    p = subprocess.run(cmd, shell=True, cwd=cwd, env=env, capture_output=True, text=True, timeout=timeout)
    return p.returncode, p.stdout + p.stderr


def confirm(src, mid, prop, run_suite=True):
    dst = os.path.join(SEEDED, mid)
    os.makedirs(dst, exist_ok=True)
    for f in ("patch.diff", "demo.py", "notes.md"):
        if os.path.exists(os.path.join(src, f)):
            shutil.copy(os.path.join(src, f), os.path.join(dst, f))
    wt = f"/tmp/confirm_{mid}"
    sh(f"git -C /repo worktree remove --force {wt}")
    rc, out = sh(f"git -C /repo worktree add -q --detach {wt} HEAD")
    assert rc == 0, out
    env = dict(os.environ, PYTHONPATH=wt, JAX_PLATFORMS="cpu")
    meta = {"id": mid, "property": prop, "source": "independent sub-agent given only the property text and a scratch worktree"}
    try:
        rc0, o0 = sh(f"{PY} -W ignore {dst}/demo.py", cwd=wt, env=env)
        meta["demo_clean_exit"] = rc0
        rc, out = sh(f"git -C {wt} apply {dst}/patch.diff")
        assert rc == 0, out
        rc1, o1 = sh(f"{PY} -W ignore {dst}/demo.py", cwd=wt, env=env)
        meta["demo_mutant_exit"] = rc1
        meta["demo_mutant_tail"] = o1[-400:]
        if run_suite:
            rc2, o2 = sh(f"{PY} -m pytest -q -p no:cacheprovider -n 8 tests 2>&1 | tail -3", cwd=wt, env=env)
            meta["suite_with_mutant"] = o2.strip().splitlines()[-1] if o2.strip() else ""
        _, st = sh(f"git -C {wt} diff --stat")
        meta["diffstat"] = st.strip().splitlines()[-1] if st.strip() else ""
    finally:
        sh(f"git -C /repo worktree remove --force {wt}")
    meta["confirmed"] = bool(meta["demo_clean_exit"] == 0 and meta["demo_mutant_exit"] != 0
                             and ("554 passed" in meta.get("suite_with_mutant", "554 passed")))
    if os.path.exists(os.path.join(dst, "notes.md")):
        meta["needs_to_manifest"] = open(os.path.join(dst, "notes.md")).read()[:1500]
    meta["what_i_ran"] = ["demo.py on clean scratch worktree", "git apply patch.diff; demo.py", "full pytest suite with the patch (-n 8)"]
    json.dump(meta, open(os.path.join(dst, "meta.json"), "w"), indent=1)
    print(json.dumps({k: v for k, v in meta.items() if k not in ("needs_to_manifest", "demo_mutant_tail")}, indent=1))
    return meta


def detect(mid, props, tier="quick", extra=""):
    dst = os.path.join(SEEDED, mid)
    meta = json.load(open(os.path.join(dst, "meta.json")))
    rc, st = sh("git -C /repo status --porcelain")
    assert st.strip() == "", "/repo is not clean: " + st
    rc, out = sh(f"git -C /repo apply {dst}/patch.diff")
    assert rc == 0, out
    res = meta.setdefault("detection", {})
    try:
        for p in props:
            t0 = time.time()
            rc, out = sh(f"./check {p} --tier {tier} {extra} {os.environ.get('MUT_EXTRA', '')}", cwd=VERIF)
            lines = [l for l in out.splitlines() if l.startswith("VIOLATION") or l.startswith("  check=")]
            res[p] = {"exit": rc, "tier": tier, "wall_s": round(time.time() - t0, 1), "lines": lines[:6]}
            print(mid, p, "exit", rc, lines[:2])
    finally:
        sh("git -C /repo checkout -- .")
        rc, st = sh("git -C /repo status --porcelain")
        assert st.strip() == "", st
    json.dump(meta, open(os.path.join(dst, "meta.json"), "w"), indent=1)


def detect_scratch(mid, props, seed=1, tier="quick", workers=8, key=None):
    """Like detect(), but in a scratch worktree selected through GTSIM_TREE: /repo is never touched and
    evidence / replay files of the registered checks are not overwritten.  Used for seed-robustness sweeps."""
    dst = os.path.join(SEEDED, mid)
    meta = json.load(open(os.path.join(dst, "meta.json")))
    wt = f"/tmp/det_{mid}"
    sh(f"git -C /repo worktree remove --force {wt}")
    rc, out = sh(f"git -C /repo worktree add -q --detach {wt} HEAD")
    assert rc == 0, out
    try:
        rc, out = sh(f"git -C {wt} apply {dst}/patch.diff")
        assert rc == 0, out
        env = dict(os.environ, GTSIM_TREE=wt, GTSIM_EVIDENCE_DIR=f"/tmp/det_ev_{mid}", GTSIM_REPLAY_DIR=f"/tmp/det_rp_{mid}")
        res = meta.setdefault(key or f"detection_seed{seed}", {})
        for p in props:
            t0 = time.time()
            rc, out = sh(f"./check {p} --tier {tier} --seed {seed} --workers {workers}", cwd=VERIF, env=env)
            lines = [l for l in out.splitlines() if l.startswith("VIOLATION") or l.startswith("  check=")]
            res[p] = {"exit": rc, "tier": tier, "seed": seed, "wall_s": round(time.time() - t0, 1), "lines": lines[:4]}
            print(mid, p, "seed", seed, "exit", rc, lines[1:2])
    finally:
        sh(f"git -C /repo worktree remove --force {wt}")
        shutil.rmtree(f"/tmp/det_ev_{mid}", ignore_errors=True)
        shutil.rmtree(f"/tmp/det_rp_{mid}", ignore_errors=True)
    json.dump(meta, open(os.path.join(dst, "meta.json"), "w"), indent=1)


def table():
    rows = []
    for mid in sorted(os.listdir(SEEDED)):
        mp = os.path.join(SEEDED, mid, "meta.json")
        if not os.path.exists(mp):
            continue
        m = json.load(open(mp))
        det = {p: d["exit"] for p, d in m.get("detection", {}).items()}
        rows.append((mid, m["property"], m.get("confirmed"), det))
    for r in rows:
        print(*r)


if __name__ == "__main__":
    cmd = sys.argv[1]
    if cmd == "confirm":
        confirm(sys.argv[2], sys.argv[3], sys.argv[4], run_suite=(len(sys.argv) < 6 or sys.argv[5] != "nosuite"))
    elif cmd == "detect":
        detect(sys.argv[2], sys.argv[3:])
    elif cmd == "detect_scratch":
        detect_scratch(sys.argv[2], sys.argv[4:], seed=int(sys.argv[3]))
    elif cmd == "table":
        table()
