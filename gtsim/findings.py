"""Known findings: /verif/known_findings.json is committed and never written at run time.

An *open* entry converts exactly one family of assertions (check id prefixes) at one call
site (op / which / how / name) under one configuration predicate into "matches a known
finding"; everything else still fires.  *fixed* entries suppress nothing.
"""
import json
import os

from . import rt

PATH = os.path.join(rt.VERIF, "known_findings.json")


class Findings:
    def __init__(self, property_id=None, path=PATH, enabled=True):
        self.entries = []
        self.hits = {}
        if os.environ.get("GTSIM_NO_FINDINGS"):
            enabled = False
        if enabled and os.path.exists(path):
            for e in json.load(open(path))["findings"]:
                if e.get("status") != "open":
                    continue
                # an open finding is honoured by every scenario that can run into its site
                self.entries.append(e)

    def match(self, w, ctx, v):
        for e in self.entries:
            site = e["site"]
            if site.get("op") and site["op"] != ctx.get("op"):
                continue
            ok = True
            for k in ("which", "how", "name"):
                if site.get(k) and site[k] != ctx.get(k):
                    ok = False
            if not ok:
                continue
            if not any(v.check.startswith(p) for p in e["checks"]):
                continue
            try:
                if not eval(e.get("predicate", "True"), {"__builtins__": {}}, _Default(ctx)):
                    continue
            except Exception:
                continue
            self.hits[e["id"]] = self.hits.get(e["id"], 0) + 1
            w.known.append(e["id"])
            return True
        return False


class _Default(dict):
    def __missing__(self, k):
        return None


def load_all(path=PATH):
    if not os.path.exists(path):
        return []
    return json.load(open(path))["findings"]
