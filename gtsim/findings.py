"""Known findings: /verif/known_findings.json is committed and never written at run time.

An *open* entry converts exactly one family of assertions (check id prefixes) at one call
site (op / which / how / name) under one configuration predicate into "matches a known
finding"; everything else still fires.  *fixed* entries suppress nothing.
"""
import json
import os

from . import rt

PATH = os.path.join(rt.VERIF, "known_findings.json")


class Findings:
    def __init__(self, property_id=None, path=PATH, enabled=True):
        self.entries = []
        self.hits = {}
        if os.environ.get("GTSIM_NO_FINDINGS"):
            enabled = False
        if enabled and os.path.exists(path):
            for e in json.load(open(path))["findings"]:
                if e.get("status") != "open":
                    continue
                # an open finding is honoured by every scenario that can run into its site
                self.entries.append(e)

    def match(self, w, ctx, v):
        for e in self.entries:
            site = e["site"]
            if site.get("op") and site["op"] != ctx.get("op"):
                continue
            ok = True
            for k in ("which", "how", "name"):
                if site.get(k) and site[k] != ctx.get(k):
                    ok = False
            if not ok:
                continue
            if not any(v.check.startswith(p) for p in e["checks"]):
                continue
            try:
                if not eval(e.get("predicate", "True"), {"__builtins__": {}}, _Default(ctx)):
                    continue
            except Exception:
                continue
            if e.get("predictor_fn"):
                # the wrong value has a closed form: only that exact discrepancy is the known finding
                try:
                    if not PREDICTORS[e["predictor_fn"]](w, ctx):
                        continue
                except Exception:
                    continue
            self.hits[e["id"]] = self.hits.get(e["id"], 0) + 1
            w.known.append(e["id"])
            return True
        return False


class _Default(dict):
    def __missing__(self, k):
        return None


def load_all(path=PATH):
    if not os.path.exists(path):
        return []
    return json.load(open(path))["findings"]


def _pred_hetero_precision(w, ctx):
    """K02: heteroscedastic condition_on_x returns Sigma(x) correctly but the precision / log-det of the
    square-A formula  Lambda0 - Lambda0 A_k diag(D/(1+D)) A_k' Lambda0,  ln det Sigma0 + sum ln(1+D)."""
    import numpy as np
    from . import ref

    rec = ctx.get("_rec")
    if rec is None or rec.get("out") not in w.slots:
        return False
    c, res = w.obj(rec["a"]), w.obj(rec["out"])
    A = ref.A
    x = A(rec["x"])
    Wm, Am = A(c.W), A(c.A)[0]
    Dk = Wm.shape[0]
    h = x @ Wm[:, 1:].T + Wm[:, 0][None]
    D = A(c.link_function(h))
    L0, S0 = A(c.Lambda)[0], A(c.Sigma)[0]
    Ak = Am[:, :Dk]
    Ainv = L0 @ Ak
    G = D / (1.0 + D)
    for n in range(x.shape[0]):
        Sig = S0 + Ak @ np.diag(D[n]) @ Ak.T
        Lam = L0 - Ainv @ np.diag(G[n]) @ Ainv.T
        ld = A(c.ln_det_Sigma)[0] + np.sum(np.log1p(D[n]))
        ref.cmp_lin("pred", A(res.Sigma)[n], Sig)
        ref.cmp_lin("pred", A(res.Lambda)[n], Lam)
        ref.cmp_log("pred", A(res.ln_det_Sigma)[n], ld)
    return True


PREDICTORS = {"hetero_precision": _pred_hetero_precision}
