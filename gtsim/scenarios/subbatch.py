"""C12 - batches are independent components; slicing commutes with every operation.

Membership perturbation: the same workload is executed on the batched roots (primary) and, in
lock step, on `root.slice(idx)` for seeded index arrays with repeats / negatives / permutations
(twin).  Every twin slot carries a *component map* cmap (twin component k <-> primary component
cmap[k] of the slot with the same id).  After every step
  * every observation of the twin equals the primary observation indexed through the map,
  * every object the twin step produced equals `primary_result.slice(cmap)` attribute-wise
    (slicing commutes with the operation),
  * update(idx, d) changed exactly the addressed components (bit-exact elsewhere).
All twin decisions are stored in the records themselves (key "_tw"), so a record list is a
self-contained replay.
"""
import copy
import time

import numpy as np

from .. import gen, model, ref, util
from ..findings import Findings
from ..model import World, exec_step, KnownFindingStop, lib
from ..ref import A, IllConditioned, Violation
from ..util import Rng
from . import common

FULL = 10 ** 6  # slot id offset of the un-sliced twin root
AUX = 2 * 10 ** 6  # slot id offset for alignment slices


class Skip(Exception):
    """The twin cannot follow this step (needed components are not members of the sub-batch)."""


def norm(idx, R):
    return [int(j) % R for j in idx]


def per_component(name, arr):
    a = np.asarray(arr)
    return (name.endswith("_mat") and a.ndim == 3) or (name.endswith("_vec") and a.ndim == 2)


class Twin:
    def __init__(self, salt, findings, invariants=("coh", "imm")):
        self.wp = World(salt=salt, invariants=invariants, findings=findings)
        self.wt = World(salt=salt, invariants=invariants, findings=findings)
        self.cm = {}  # slot id -> component map (list of primary component indices)
        self.absent = set()
        self.ncmp = 0
        self.nontrivial = False
        self.skipped = 0
        self.aux = 0

    # -- helpers -------------------------------------------------------------------------
    def Rp(self, sid):
        return self.wp.slots[sid].R

    def need(self, *sids):
        for s in sids:
            if s in self.absent or s not in self.wt.slots:
                raise Skip()

    def texec(self, rec, i):
        exec_step(self.wt, rec, i)

    def align(self, sid, want, i):
        """Twin slot whose components are exactly `want` (primary indices), by slicing the twin slot."""
        have = self.cm[sid]
        if have == list(want):
            return sid
        sel = []
        for c in want:
            if c not in have:
                raise Skip()
            sel.append(have.index(c))
        self.aux += 1
        new = AUX + self.aux
        self.texec({"op": "slice", "a": sid, "idx": sel, "out": new}, i)
        self.cm[new] = list(want)
        return new

    # -- one step -----------------------------------------------------------------------
    def step(self, rec, i):
        exec_step(self.wp, rec, i)
        if "out" in rec and rec["out"] not in self.wp.slots:
            return
        try:
            self.twin_step(rec, i)
        except Skip:
            self.skipped += 1
            if "out" in rec:
                self.absent.add(rec["out"])
            if rec["op"] in model.MUTATORS:
                self.absent.add(rec["a"])
            return
        self.compare(rec, i)

    def twin_step(self, rec, i):
        op = rec["op"]
        tw = rec.get("_tw", {})
        t = dict((k, v) for k, v in rec.items() if k not in ("_tw", "_i"))
        cm = self.cm
        if op == "root":
            idx = tw.get("idx")
            R = self.Rp(rec["out"])
            if idx is None:
                idx = list(range(R))
            if rec["cls"] in model.APPROX:
                idx = [0]  # single-component by construction; their inherited slice is not meaningful
                self.texec(t, i)
            elif rec["cls"] == "NNControlGaussianConditional":
                t["u"] = A(rec["u"])[norm(idx, R)]
                self.texec(t, i)
            else:
                t["out"] = FULL + rec["out"]
                self.texec(t, i)
                self.texec({"op": "slice", "a": FULL + rec["out"], "idx": list(idx), "out": rec["out"]}, i)
            cm[rec["out"]] = norm(idx, R)
            if cm[rec["out"]] != list(range(R)):
                self.nontrivial = True
            return
        self.need(*model.operands(rec))
        a = rec.get("a")
        if op == "slice":
            Ra = self.Rp(a)
            pidx = norm(rec["idx"], Ra)
            pos = tw.get("pos")
            if pos is None:
                pos = [m for m in range(len(pidx)) if pidx[m] in cm[a]]
            if not pos or any(pidx[m] not in cm[a] for m in pos):
                raise Skip()
            tidx = []
            for k, m in enumerate(pos):
                tpos = [q for q, c in enumerate(cm[a]) if c == pidx[m]]
                q = tpos[(k + m) % len(tpos)]
                tidx.append(q - len(cm[a]) if tw.get("neg") and (k % 2 == 1) else q)
            t["idx"] = tidx
            self.texec(t, i)
            cm[rec["out"]] = list(pos)
        elif op == "multiply":
            f = rec["f"]
            Ra, Rf = self.Rp(a), self.Rp(f)
            if rec.get("how") == "hadamard":
                if Ra > 1 and Rf > 1:
                    t["f"] = self.align(f, cm[a], i)
                    out = list(cm[a])
                elif Rf == 1:
                    out = list(cm[a])
                else:
                    out = list(cm[f])
            else:
                out = [ca * Rf + cf for ca in cm[a] for cf in cm[f]]
            self.texec(t, i)
            cm[rec["out"]] = out
        elif op == "product":
            if sorted(cm[a]) != list(range(self.Rp(a))):
                raise Skip()
            self.texec(t, i)
            cm[rec["out"]] = [0]
        elif op in ("get_density", "marginal", "condition_on", "copy"):
            self.texec(t, i)
            cm[rec["out"]] = list(cm[a])
        elif op == "normalize":
            self.texec(t, i)
        elif op == "linear_sum":
            t["W"] = A(rec["W"])[cm[a]]
            if rec.get("b") is not None:
                t["b"] = A(rec["b"])[cm[a]]
            self.texec(t, i)
            cm[rec["out"]] = list(cm[a])
        elif op == "cond_x":
            N = np.shape(rec["x"])[0]
            self.texec(t, i)
            cm[rec["out"]] = [c * N + n for c in cm[a] for n in range(N)]
        elif op == "set_y":
            Ra = self.Rp(a)
            y = A(rec["y"])
            if Ra == 1:
                ysel = tw.get("ysel") or list(range(y.shape[0]))
                t["y"] = y[ysel]
                out = list(ysel)
                if out != list(range(y.shape[0])):
                    self.nontrivial = True
            else:
                t["y"] = y[cm[a]]
                out = list(cm[a])
            self.texec(t, i)
            cm[rec["out"]] = out
        elif op == "affine":
            p = rec["p"]
            Rc, Rq = self.Rp(a), self.Rp(p)
            out = list(cm[p]) if Rc == 1 else list(cm[a])
            if Rc == 1 and Rq == 1:
                out = [0]
            self.texec(t, i)
            cm[rec["out"]] = out
        elif op == "update":
            d = rec["d"]
            idx = norm(rec["idx"], self.Rp(a))
            tidx = [q for q, c in enumerate(cm[a]) if c in idx]
            if tidx:
                want = [idx.index(cm[a][q]) for q in tidx]
                t["d"] = self.align(d, want, i)
                t["idx"] = tidx
                self.texec(t, i)
        elif op == "replace":
            if self.wp.slots[a].cls not in model.APPROX:  # approximate conditionals are single-component; W, mu, ... have no batch axis
                t["value"] = A(rec["value"])[cm[a]]
            self.texec(t, i)
            cm[rec["out"]] = list(cm[a])
        elif op == "truncate":
            if rec.get("lower") is not None:
                t["lower"] = A(rec["lower"])[cm[a]]
            if rec.get("upper") is not None:
                t["upper"] = A(rec["upper"])[cm[a]]
            self.texec(t, i)
            cm[rec["out"]] = list(cm[a])
        elif op == "update_sigma":
            Sg = A(rec["Sigma"])
            t["Sigma"] = Sg if Sg.shape[0] == 1 and self.Rp(a) > 1 else Sg[cm[a]]
            self.texec(t, i)
        elif op == "obs":
            self.twin_obs(rec, t, i)
        else:
            raise Skip()

    def twin_obs(self, rec, t, i):
        cm = self.cm
        a = rec["a"]
        name = rec["name"]
        Ra = self.Rp(a)
        omap = list(cm[a])
        if name == "sample":
            raise Skip()
        if name in ("evaluate_ln", "evaluate", "call", "trunc_call") and rec.get("ew"):
            t["x"] = A(rec["x"])[cm[a]]
        elif name == "integrate":
            kw = {}
            for k, v in rec.get("kw", {}).items():
                kw[k] = A(v)[cm[a]] if per_component(k, v) else v
            t["kw"] = kw
        elif name == "integrate_log":
            f = rec["f"]
            if self.Rp(f) > 1:
                t["f"] = self.align(f, cm[a], i)
        elif name == "kl":
            q = rec["q"]
            Rq = self.Rp(q)
            if Ra > 1 and Rq > 1:
                t["q"] = self.align(q, cm[a], i)
            elif Ra == 1 and Rq > 1:
                omap = list(cm[q])
        elif name in ("conditional_entropy", "mutual_information"):
            p = rec["p"]
            if Ra == 1:
                omap = list(cm[p]) if self.Rp(p) > 1 else [0]
        elif name == "integrate_log_conditional":
            omap = list(cm[rec["p"]])
        elif name == "integrate_log_conditional_y":
            p = rec["p"]
            t["y"] = A(rec["y"])[cm[p]]
            omap = list(cm[p])
        self.texec(t, i)
        self.omap = omap

    # -- comparisons -------------------------------------------------------------------
    def compare(self, rec, i):
        op = rec["op"]
        if op == "obs":
            omap = self.omap
            a_slot = self.wp.slots.get(rec["a"])
            if a_slot is not None and a_slot.cls in model.APPROX and rec["name"] == "get_conditional_mu":
                omap = None  # approximate conditionals return [N, Dy] without a component axis
            for k in sorted(k for k in self.wt.outputs if k[0] == i):
                if k not in self.wp.outputs:
                    continue
                want = self.wp.outputs[k]
                got = self.wt.outputs[k]
                if want.ndim == 0 or got.ndim == 0:
                    continue
                nm = k[1]
                cmap = omap
                if cmap is None:
                    common.compare_value(f"C12.obs.{nm}", nm, got, want, step=i, output=nm)
                    self.ncmp += 1
                    continue
                if (nm.startswith("attr.") or nm.startswith("dict.")):
                    cmap = self.cm[rec["a"]]
                if want.shape[0] <= max(cmap):
                    raise Violation("C12.obs.shape", f"{nm}: primary leading axis {want.shape[0]} cannot be indexed by component map (max {max(cmap)})", step=i, output=nm)
                common.compare_value(f"C12.obs.{nm}", nm, got, np.take(want, cmap, axis=0), step=i, output=nm, cmap=list(cmap))
                self.ncmp += 1
            return
        sid = rec.get("out", rec.get("a"))
        if sid not in self.wt.slots or sid not in self.wp.slots or sid in self.absent:
            return
        if self.wp.slots[sid].tainted or self.wt.slots[sid].tainted:
            return  # object of an open known finding: dropped from every comparison
        cmap = self.cm[sid]
        pobj, tobj = self.wp.slots[sid].obj, self.wt.slots[sid].obj
        # (the class may legitimately differ: slicing a diagonal / identity-diagonal conditional returns the
        #  equivalent non-diagonal class; equality of behaviour across classes is C15)
        if type(pobj).__name__ == "NNControlGaussianConditional" or ref.kind_of(pobj) == "trunc" or type(pobj).__name__ in model.APPROX:
            return
        # slicing commutes with the operation: op(obj).slice(cmap) vs op(obj.slice(idx))
        jnp = lib()["jnp"]
        try:
            sl = ref.clone(pobj).slice(jnp.asarray(np.asarray(cmap, dtype=np.int64)))
        except Exception as e:
            raise Violation("C12.raise.slice", f"{type(e).__name__}: {str(e)[:200]}", step=i)
        ref.I_coh(sl, where=f"slice of primary result step {i}")
        pa, ta = ref.attrs_of(sl), ref.attrs_of(tobj)
        for n in pa:
            if pa[n] is None or ta.get(n) is None:
                continue
            common.compare_value(f"C12.commute.{n}", "attr." + n, ta[n], pa[n], step=i, op=op, attr=n, cmap=list(cmap))
            self.ncmp += 1
        if op == "update":
            self.check_update(rec, i)

    def check_update(self, rec, i):
        """update(idx, d) replaced exactly the addressed components (bit-exact elsewhere)."""
        pass  # performed in run() on the primary world with a pre-snapshot


def direct_update_check(w, rec, snap, i):
    a, d = w.obj(rec["a"]), w.obj(rec["d"])
    R = int(a.R)
    idx = norm(rec["idx"], R)
    n = 0
    for name, sv in snap.items():
        cur = a.__dict__.get(name)
        if sv is None or cur is None:
            continue
        cur = np.asarray(cur)
        old = sv[0]
        for r in range(R):
            if r in idx:
                dv = d.__dict__.get(name)
                if dv is None:
                    continue
                if name == "ln_det_Lambda":
                    continue
                ref.cmp_bits("C12.update.addressed." + name, cur[r], np.asarray(dv)[idx.index(r)], step=i, component=r)
            else:
                ref.cmp_bits("C12.update.untouched." + name, cur[r], old[r], step=i, component=r)
            n += 1
    return n


def behaviour(obj, salt, on_clone=True):
    """Observer battery.  On a clone it never warms the object; on the object itself it is an ordinary
    sequence of read-only queries (which may fill caches that a later in-place update must not leave stale)."""
    jnp = lib()["jnp"]
    X = jnp.asarray(ref.generic_points(int(obj.D), ("upd", salt))[:3])
    t = (lambda: ref.clone(obj)) if on_clone else (lambda: obj)
    return {
        "evaluate_ln": A(t().evaluate_ln(X)),
        "log_integral": A(t().log_integral()),
        "integrate_x": A(t().integrate("x")),
        "integrate_xx": A(t().integrate("xx'")),
        "integrate_cubic": A(t().integrate("xb'xx'", b_vec=X[0])),
        "integrate_quad": A(t().integrate("(Ax+a)(Bx+b)'", A_mat=X[:2], B_mat=X[:2])),
        "entropy": A(t().entropy()),
    }


def behavioural_update_check(w, rec, pre, dbeh, i):
    """After update(idx, d): the addressed components behave like d's, all others like before."""
    a = w.obj(rec["a"])
    R = int(a.R)
    idx = norm(rec["idx"], R)
    post = behaviour(a, (w.salt, i))
    n = 0
    for name in post:
        want = np.array(pre[name], copy=True)
        for j, r in enumerate(idx):
            want[r] = dbeh[name][j]
        common.compare_value("C12.update.behaviour." + name, name if name in common.LOG_NAMES else "integrate", post[name], want, step=i, observer=name)
        n += 1
    return n


def derive(records, seed, k, Rs):
    """Attach the twin decisions (_tw) for fault stream k to a copy of the records."""
    r = Rng(seed, "subbatch", k)
    out = []
    per_R = {}
    mode = r.wchoice(["subset", "permute", "repeat", "mixed"], [3, 2, 2, 3])

    def pick_idx(R):
        if R == 1:
            return [0]
        if R in per_R and r.coin(0.7):
            return per_R[R]
        if mode == "permute":
            idx = r.perm(R)
        elif mode == "subset":
            idx = sorted(r.perm(R)[: r.integers(1, R)])
        elif mode == "repeat":
            idx = [r.integers(0, R - 1) for _ in range(r.integers(1, R + 1))]
        else:
            idx = r.idx_array(R, maxlen=R + 2)
        if mode == "repeat":
            idx = [j - R if r.coin(0.3) else j for j in idx]
        assert all(-R <= j < R for j in idx)
        per_R[R] = idx
        return idx

    for rec in records:
        rec = dict(rec)
        tw = {}
        if rec["op"] == "root":
            R = Rs[rec["out"]]
            tw["idx"] = pick_idx(R)
        elif rec["op"] == "slice":
            tw["neg"] = r.coin(0.4)
            tw["seed"] = r.integers(0, 10 ** 6)
        elif rec["op"] == "set_y":
            N = np.shape(rec["y"])[0]
            if N > 1 and r.coin(0.6):
                tw["ysel"] = [r.integers(0, N - 1) for _ in range(r.integers(1, N))]
        rec["_tw"] = tw
        out.append(rec)
    return out


def finalize_slices(records, Rs):
    """Resolve the twin's slice positions (pos) deterministically from the stored seeds.

    pos must only name components that are members of the twin operand, which depends on the
    maps built so far; we resolve lazily in Twin.twin_step when pos is None, so nothing to do."""
    return records


def execute(records, salt, findings=None, check_updates=True):
    tw = Twin(salt, findings if findings is not None else Findings("C12"))
    for i, rec in enumerate(records):
        snap = None
        if rec["op"] == "update" and check_updates:
            snap = ref.snapshot(tw.wp.obj(rec["a"]))
            # every other update is preceded by the queries on the object itself: caches filled before an
            # in-place update must not survive it
            pre = behaviour(tw.wp.obj(rec["a"]), (salt, i), on_clone=(i % 2 == 1))
            dbeh = behaviour(tw.wp.obj(rec["d"]), (salt, i))
        tw.step(rec, i)
        if snap is not None:
            tw.wp.stats["chk.update_direct"] += direct_update_check(tw.wp, rec, snap, i)
            tw.wp.stats["chk.update_direct"] += behavioural_update_check(tw.wp, rec, pre, dbeh, i)
    return tw


def run(seed, tier, prop="C12"):
    t0 = time.time()
    res = common.new_result(seed)
    cfg = gen.swarm(seed, tier, "subbatch")
    cfg["Rmax"] = max(cfg["Rmax"], 2)
    K = 3 if tier == "quick" else 8
    fnd = Findings(prop)
    w0 = World(salt=seed, invariants=("coh", "imm"), findings=fnd)
    g = gen.Gen(seed, cfg, w0)
    records = g.records
    import collections

    stats = collections.Counter()
    sigs = []
    digests = []
    try:
        try:
            g.history()
        except IllConditioned:
            res["discarded"] += 1
        res["discarded"] += g.discarded
        stats.update(w0.stats)
        Rs = {sid: s.R for sid, s in w0.slots.items()}
        for k in range(K):
            recs_k = derive(records, seed, k, Rs)
            try:
                tw = execute(recs_k, seed, findings=fnd)
            except (IllConditioned, KnownFindingStop):
                res["discarded"] += 1
                continue
            except Violation as v:
                v.detail["twin"] = k
                res["ok"] = False
                res["violation"] = common.violation_record(prop, "subbatch", seed, tier, cfg, recs_k, {}, v)
                break
            stats.update(tw.wt.stats)
            stats["chk.update_direct"] += tw.wp.stats.get("chk.update_direct", 0)
            stats["chk.twin"] += tw.ncmp
            stats["twins"] += 1
            stats["twin_steps_skipped"] += tw.skipped
            w0.reach.update(tw.wt.reach)
            w0.state_sigs |= tw.wt.state_sigs
            digests.append(tw.wt.digest())
            if tw.nontrivial and tw.ncmp:
                stats["fault_fired.subbatch"] += 1
                sigs.append(common.sig_of(recs_k, sorted((r_["out"], tuple(r_["_tw"].get("idx", []))) for r_ in recs_k if r_["op"] == "root")))
    except Violation as v:
        res["ok"] = False
        res["violation"] = common.violation_record(prop, "subbatch", seed, tier, cfg, records, {}, v)
    res["stats"] = dict(stats)
    res["reach"] = dict(w0.reach)
    res["sigs"] = sigs if res["ok"] else []
    res["digest"] = util.sha_bytes(w0.digest(), *digests) if res["ok"] else ""
    res["known_hits"] = dict(fnd.hits)
    res["steps"] = len(records) * (1 + K)
    res["states"] = sorted(w0.state_sigs)
    if (seed % 97 == 0 or (seed & 0xFFFFF) < 2) or not res["ok"]:
        res["sample"] = {"seed": int(seed), "config": {k: v for k, v in cfg.items() if k != "weights"},
                         "ops": [r["op"] + ":" + str(r.get("cls") or r.get("how") or r.get("which") or r.get("name") or "") for r in records],
                         "root_index_arrays": [r_["_tw"].get("idx") for r_ in (recs_k if 'recs_k' in dir() else []) if r_["op"] == "root"]}
    res["wall"] = time.time() - t0
    return res


def replay(record):
    records = util.from_jsonable(record["records"])
    try:
        execute(records, record["seed"])
    except Violation as v:
        return v
    except (IllConditioned, KnownFindingStop):
        return None
    return None
