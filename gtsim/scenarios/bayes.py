"""C11 - Bayesian updating is path independent.  Scenarios `bayes` and `kalman`.

A *model* (prior + observations, or a linear-Gaussian state space model with data) is executed
under K *schedules*: a delivery order (permutation), a route per step
  (a) affine_conditional_transformation -> condition_on_x, evidence from the marginal transformation
  (b) affine_joint_transformation -> condition_on(y dims) -> condition_on_x, evidence from get_marginal
  (c) one shot: set_y -> product -> prior * lik -> get_density / log_integral
and faults on the carried posterior between steps (warm / dup / evict / restore).
Every schedule must reach the posterior and the evidence of the dense numpy reference
(all observations stacked, one solve) - and therefore the same as every other schedule.
"""
import copy
import time

import numpy as np

from .. import model as M_, perturb, ref, util
from ..findings import Findings
from ..model import World, Slot, lib
from ..ref import A, Violation, LN2PI
from ..util import Rng
from . import common

QUERIES = ("log_integral", "integrate_x", "integrate_xx", "get_density", "invert_lambda", "compute_mu", "compute_lnZ", "evaluate_ln", "is_normalized")


# ---------------------------------------------------------------------------------------
# generation


def gen_bayes(seed, tier):
    r = Rng(seed, "bayes")
    big = tier == "thorough"
    Dw = r.integers(1, 6 if big else 4)
    Dy = r.integers(1, 4 if big else 3)
    N = r.integers(1, 12 if big else 6)
    cond_cls = r.wchoice(["general", "diag", "identity", "identitydiag", "nn"], [5, 2, 1.5, 1.5, 1.5])
    if cond_cls.startswith("identity"):
        Dy = Dw
    cmax = 10 ** r.uniform(0.3, 2.5)
    prior_diag = r.coin(0.3)
    m = {
        "kind": "bayes", "cond_cls": cond_cls, "prior_cls": "GaussianDiagPDF" if prior_diag else "GaussianPDF",
        "m0": r.normal((Dw,), 1.0), "S0": r.spd(1, Dw, cmax, diag=prior_diag)[0],
        "Sigma": r.spd(N, Dy, cmax, diag=cond_cls in ("diag", "identitydiag")),
        "y": r.normal((N, Dy), 1.5),
        "ctor": r.choice(["sigma", "lambda", "sigma_lambda", "all"]),
        "prior_ctor": r.choice(["sigma", "sigma_lambda", "all"]),
    }
    if cond_cls.startswith("identity"):
        m["M"] = np.tile(np.eye(Dw)[None], (N, 1, 1))
        m["b"] = np.zeros((N, Dy))
    elif cond_cls == "nn":
        # likelihood p(y_i | w, u_i) = N(M(u_i) w + b(u_i), Sigma) with one shared covariance (notebook idiom)
        Du = r.integers(1, 3)
        m["nn_W"] = r.normal((Du, Dy * (Dw + 1)), 0.8)
        m["nn_c"] = r.normal((Dy * (Dw + 1),), 0.5)
        m["U"] = r.normal((N, Du), 1.0)
        out = np.tanh(m["U"] @ m["nn_W"] + m["nn_c"])
        m["M"] = out[:, : Dy * Dw].reshape(N, Dy, Dw)
        m["b"] = out[:, Dy * Dw:]
        m["Sigma"] = np.tile(m["Sigma"][:1], (N, 1, 1))
    else:
        m["M"] = r.normal((N, Dy, Dw), 0.8)
        m["b"] = r.normal((N, Dy), 0.8)
    return m


def gen_bayes_schedule(seed, k, m, rate):
    r = Rng(seed, "bayes-sched", k)
    N = m["y"].shape[0]
    if k == 0:
        return {"perm": list(range(N)), "routes": ["a"] * N, "faults": {}}
    if k == 1 or r.coin(0.25):
        if k != 1 and r.coin(0.6):
            sch = {"one_shot": True, "style": "incremental", "perm": r.perm(N), "hows": [r.choice(["hadamard", "multiply"]) for _ in range(N)],
                   "ufs": [r.coin(0.6) for _ in range(N)], "faults": {}, "dens_first": r.coin(0.5)}
            for t in range(1, N):
                if r.coin(rate):
                    sch["faults"][str(t)] = [gen_fault(r)]
            return sch
        return {"one_shot": True, "faults": {}, "dens_first": bool(k != 1 and r.coin(0.5))}
    Dy = m["y"].shape[1]
    sch = {"perm": r.perm(N), "routes": [r.wchoice(["a", "b", "c"], [2, 2, 1.2]) for _ in range(N)], "faults": {},
           "yperms": [r.perm(Dy) if r.coin(0.5) else None for _ in range(N)], "ufs": [r.coin(0.5) for _ in range(N)],
           "xperms": [r.perm(m["S0"].shape[0]) if r.coin(0.4) else None for _ in range(N)],
           "dens_first": r.choice([False, True, "light"])}
    for t in range(1, N):
        if r.coin(rate):
            sch["faults"][str(t)] = [gen_fault(r)]
    return sch


def gen_fault(r):
    kind = r.wchoice(["warm", "dup", "evict", "restore"], [3, 1, 2, 2])
    f = {"kind": kind, "slot": 0}
    if kind in ("warm", "dup"):
        f["q"] = r.choice(QUERIES)
    if kind == "restore":
        f["via"] = "dict"
    return f


def gen_kalman(seed, tier):
    r = Rng(seed, "kalman")
    big = tier == "thorough"
    Dz = r.integers(1, 4 if big else 3)
    Dy = r.integers(1, 3 if big else 2)
    T = r.integers(1, 12 if big else 8)
    cmax = 10 ** r.uniform(0.3, 2.0)
    Amat = r.normal((Dz, Dz), 0.6)
    # keep the state dynamics non-explosive so that the filtered covariances stay in the envelope
    sv = np.linalg.svd(Amat, compute_uv=False)[0]
    if sv > 1.2:
        Amat = Amat * (1.2 / sv)
    return {
        "kind": "kalman", "m0": r.normal((Dz,), 1.0), "P0": r.spd(1, Dz, cmax)[0],
        "A": Amat, "b": r.normal((Dz,), 0.5), "Q": r.spd(1, Dz, cmax)[0],
        "C": r.normal((Dy, Dz), 0.8), "d": r.normal((Dy,), 0.5), "R": r.spd(1, Dy, cmax)[0],
        "ys": r.normal((T, Dy), 1.5),
        "trans_cls": r.wchoice(["general", "identity"], [4, 1]),
        # optional time-varying noise: the same conditional objects are re-used with update_Sigma
        "Rs": r.spd(T, Dy, cmax) if r.coin(0.5) else None,
        "Qs": r.spd(T, Dz, cmax) if r.coin(0.35) else None,
        "prior_ctor": r.choice(["sigma", "sigma_lambda", "all"]),
    }


def gen_kalman_schedule(seed, k, m, rate):
    r = Rng(seed, "kalman-sched", k)
    T = m["ys"].shape[0]
    if k == 0:
        return {"routes": ["a"] * T, "faults": {}, "inplace": [False] * T}
    Dy = m["ys"].shape[1]
    sch = {"routes": [r.wchoice(["a", "b", "c"], [2, 2, 1.2]) for _ in range(T)], "faults": {},
           "inplace": [r.coin(0.6) for _ in range(T)],
           "yperms": [r.perm(Dy) if r.coin(0.5) else None for _ in range(T)], "ufs": [r.coin(0.5) for _ in range(T)],
           "xperms": [r.perm(len(m["m0"])) if r.coin(0.4) else None for _ in range(T)],
           "dens_first": r.choice([False, True, "light"])}
    for t in range(1, T):
        if r.coin(rate):
            sch["faults"][str(t)] = [gen_fault(r)]
    return sch


# ---------------------------------------------------------------------------------------
# dense numpy references


def ref_bayes(m):
    m0, S0 = A(m["m0"]), A(m["S0"])
    Mm, b, Sg, y = A(m["M"]), A(m["b"]), A(m["Sigma"]), A(m["y"])
    N, Dy, Dw = Mm.shape
    Ms = Mm.reshape(N * Dy, Dw)
    bs = b.reshape(N * Dy)
    ys = y.reshape(N * Dy)
    Sn = np.zeros((N * Dy, N * Dy))
    for i in range(N):
        Sn[i * Dy:(i + 1) * Dy, i * Dy:(i + 1) * Dy] = Sg[i]
    Sy = Ms @ S0 @ Ms.T + Sn
    resid = ys - (Ms @ m0 + bs)
    sol = np.linalg.solve(Sy, resid)
    ev = -0.5 * (resid @ sol + N * Dy * LN2PI + np.linalg.slogdet(Sy)[1])
    K = S0 @ Ms.T
    mu = m0 + K @ sol
    Sig = S0 - K @ np.linalg.solve(Sy, K.T)
    return mu, 0.5 * (Sig + Sig.T), ev


def ref_kalman(m):
    """Dense joint over (x_0..x_T, y_1..y_T) built block by block; conditioned on y_{1:t}."""
    m0, P0, Am, b, Q, C, d, R, ys = (A(m[k]) for k in ("m0", "P0", "A", "b", "Q", "C", "d", "R", "ys"))
    if m.get("trans_cls") == "identity":
        Am, b = np.eye(len(m0)), np.zeros(len(m0))
    T, Dy = ys.shape
    Dz = len(m0)
    nx = (T + 1) * Dz
    n = nx + T * Dy
    mean = np.zeros(n)
    cov = np.zeros((n, n))
    # states
    mean[:Dz] = m0
    cov[:Dz, :Dz] = P0
    for t in range(1, T + 1):
        s, p = slice(t * Dz, (t + 1) * Dz), slice((t - 1) * Dz, t * Dz)
        mean[s] = Am @ mean[p] + b
        # Cov(x_t, x_j) = A Cov(x_{t-1}, x_j) for j < t
        cov[s, :t * Dz] = Am @ cov[p, :t * Dz]
        cov[:t * Dz, s] = cov[s, :t * Dz].T
        cov[s, s] = Am @ cov[p, p] @ Am.T + (A(m["Qs"])[t - 1] if m.get("Qs") is not None else Q)
    # observations
    for t in range(1, T + 1):
        o = slice(nx + (t - 1) * Dy, nx + t * Dy)
        s = slice(t * Dz, (t + 1) * Dz)
        mean[o] = C @ mean[s] + d
        cov[o, :nx] = C @ cov[s, :nx]
        cov[:nx, o] = cov[o, :nx].T
        for u in range(1, T + 1):
            o2 = slice(nx + (u - 1) * Dy, nx + u * Dy)
            s2 = slice(u * Dz, (u + 1) * Dz)
            cov[o, o2] = C @ cov[s, s2] @ C.T + ((A(m["Rs"])[t - 1] if m.get("Rs") is not None else R) if u == t else 0.0)
    out = []
    yflat = ys.reshape(-1)
    for t in range(1, T + 1):
        oi = slice(nx, nx + t * Dy)
        s = slice(t * Dz, (t + 1) * Dz)
        Syy = cov[oi, oi]
        resid = yflat[:t * Dy] - mean[oi]
        sol = np.linalg.solve(Syy, resid)
        ev = -0.5 * (resid @ sol + t * Dy * LN2PI + np.linalg.slogdet(Syy)[1])
        K = cov[s, oi]
        mu = mean[s] + K @ sol
        Sg = cov[s, s] - K @ np.linalg.solve(Syy, K.T)
        out.append((mu, 0.5 * (Sg + Sg.T), ev))
    return out


# ---------------------------------------------------------------------------------------
# execution against the library


def _cond(cls, Mm, b, Sg, m=None):
    L = lib()
    jnp, C = L["jnp"], L["conditional"]
    if cls == "nn":
        W, c = jnp.asarray(A(m["nn_W"])), jnp.asarray(A(m["nn_c"]))
        Dy, Dw = A(Mm).shape[1], A(Mm).shape[2]
        nn = C.NNControlGaussianConditional(Sigma=jnp.asarray(A(Sg)[:1]), num_cond_dim=int(Dw), num_control_dim=int(W.shape[0]),
                                            control_func=lambda u: jnp.tanh(u @ W + c))
        return nn.set_control_variable(jnp.asarray(A(m["U"])))
    if cls == "identity":
        return C.ConditionalIdentityGaussianPDF(Sigma=jnp.asarray(Sg))
    if cls == "identitydiag":
        return C.ConditionalIdentityDiagGaussianPDF(Sigma=jnp.asarray(Sg))
    k = C.ConditionalGaussianDiagPDF if cls == "diag" else C.ConditionalGaussianPDF
    ctor = (m or {}).get("ctor", "sigma")
    kw = {"M": jnp.asarray(Mm), "b": jnp.asarray(b)}
    if ctor in ("sigma", "sigma_lambda", "all"):
        kw["Sigma"] = jnp.asarray(Sg)
    if ctor in ("lambda", "sigma_lambda", "all"):
        kw["Lambda"] = jnp.asarray(np.linalg.inv(A(Sg)))
    if ctor == "all":
        kw["ln_det_Sigma"] = jnp.asarray(np.linalg.slogdet(A(Sg))[1])
    return k(**kw)


def _prior(cls, m0, S0, ctor="sigma"):
    """The prior in one of the documented constructor argument combinations."""
    L = lib()
    jnp = L["jnp"]
    k = L["pdf"].GaussianDiagPDF if cls == "GaussianDiagPDF" else L["pdf"].GaussianPDF
    kw = {"Sigma": jnp.asarray(A(S0)[None]), "mu": jnp.asarray(A(m0)[None])}
    if ctor in ("sigma_lambda", "all"):
        kw["Lambda"] = jnp.asarray(np.linalg.inv(A(S0))[None])
    if ctor == "all":
        kw["ln_det_Sigma"] = jnp.asarray(np.linalg.slogdet(A(S0))[1][None])
    return k(**kw)


def _apply_faults(w, post, faults, t, stats, kind="pdf"):
    if not faults:
        return post
    w.slots[0] = Slot(0, post, kind, t, "carry")
    for f in faults:
        perturb.apply(w, f, t)
    return w.slots[0].obj


def _update(cond_i, prior, y_i, route, Dw, Dy, yperm=None, uf=False, xperm=None, dens_first=False):
    """One Bayesian update of `prior` with observation y_i through `route`; returns (posterior, log predictive).

    Route c (likelihood factor): the log predictive carries the K01 offset (Dy-Dw)/2 ln 2pi, accounted for by the caller."""
    jnp = lib()["jnp"]
    yj = jnp.asarray(y_i[None])
    if route == "c":
        lik = cond_i.set_y(yj)
        un = prior.multiply(lik, update_full=bool(uf))
        if dens_first:  # the order of the two read-only queries is part of the schedule
            post = un.get_density()
            lp = A(un.log_integral_light() if dens_first == "light" else un.log_integral())[0]
            return post, lp
        lp = A(un.log_integral())[0]
        return un.get_density(), lp
    if route == "b" and yperm is not None:
        joint = cond_i.affine_joint_transformation(prior)
        ydims = np.arange(Dw, Dw + Dy)[np.asarray(yperm)]
        if xperm is not None:
            # explicit variant: free coordinates requested in another order, then put back in place
            xdims = np.arange(Dw)[np.asarray(xperm)]
            post_c = joint.condition_on_explicit(jnp.asarray(ydims), jnp.asarray(xdims))
            post_p = post_c.condition_on_x(jnp.asarray(y_i[np.asarray(yperm)][None]))
            post = post_p.get_marginal(jnp.asarray(np.argsort(np.asarray(xperm))))
            lp = A(joint.get_marginal(ydims).evaluate_ln(jnp.asarray(y_i[np.asarray(yperm)][None])))[0, 0]
            return post, lp
        post_c = joint.condition_on(ydims)
        post = post_c.condition_on_x(jnp.asarray(y_i[np.asarray(yperm)][None]))
        lp = A(joint.get_marginal(ydims).evaluate_ln(jnp.asarray(y_i[np.asarray(yperm)][None])))[0, 0]
        return post, lp
    if route == "a":
        p_y = cond_i.affine_marginal_transformation(prior)
        post_c = cond_i.affine_conditional_transformation(prior)
        post = post_c.condition_on_x(yj)
        lp = A(p_y.evaluate_ln(yj))[0, 0]
    else:
        joint = cond_i.affine_joint_transformation(prior)
        ydims = np.arange(Dw, Dw + Dy)
        post_c = joint.condition_on(ydims)
        post = post_c.condition_on_x(yj)
        lp = A(joint.get_marginal(ydims).evaluate_ln(yj))[0, 0]
    return post, lp


def run_bayes(m, sch, w):
    L = lib()
    jnp = L["jnp"]
    N, Dy, Dw = A(m["M"]).shape
    prior = _prior(m["prior_cls"], m["m0"], m["S0"], m.get("prior_ctor", "sigma"))
    cond = _cond(m["cond_cls"], m["M"], m["b"], m["Sigma"], m)
    y = A(m["y"])
    if sch.get("one_shot") and sch.get("style") == "incremental":
        un = prior
        for t, i in enumerate(sch["perm"]):
            un = _apply_faults(w, un, sch["faults"].get(str(t)), t, w.stats, kind="measure")
            lik_i = cond.slice(jnp.asarray([i])).set_y(jnp.asarray(y[i:i + 1]))
            if sch["hows"][t] == "hadamard":
                un = un.hadamard(lik_i, update_full=bool(sch["ufs"][t]))
            else:
                un = un.multiply(lik_i, update_full=bool(sch["ufs"][t]))
            ref.I_coh(un, where=f"bayes incremental step {t}")
        if sch.get("dens_first"):
            post = un.get_density()
            ev = A(un.log_integral())[0]
        else:
            ev = A(un.log_integral())[0]
            post = un.get_density()
        w.stats["route.d"] += 1
        return post, ev
    if sch.get("one_shot"):
        lik = cond.set_y(jnp.asarray(y))
        ref.I_coh(prior)
        likp = lik.product()
        un = prior * likp
        if sch.get("dens_first"):
            post = un.get_density()
            ev = A(un.log_integral())[0]
        else:
            ev = A(un.log_integral())[0]
            post = un.get_density()
        w.stats["route.c"] += 1
        return post, ev
    ev = 0.0
    post = prior
    for t, i in enumerate(sch["perm"]):
        post = _apply_faults(w, post, sch["faults"].get(str(t)), t, w.stats)
        cond_i = cond.slice(jnp.asarray([i]))
        post, lp = _update(cond_i, post, y[i], sch["routes"][t], Dw, Dy,
                           yperm=(sch.get("yperms") or [None] * N)[t], uf=(sch.get("ufs") or [False] * N)[t],
                           xperm=(sch.get("xperms") or [None] * N)[t], dens_first=sch.get("dens_first", False))
        ref.envelope(post)
        ref.I_coh(post, where=f"bayes step {t} obs {i} route {sch['routes'][t]}")
        ev += lp
        w.stats["route." + sch["routes"][t]] += 1
    return post, ev


def run_kalman(m, sch, w):
    L = lib()
    jnp, C = L["jnp"], L["conditional"]
    Dz = len(A(m["m0"]))
    T, Dy = A(m["ys"]).shape
    if m.get("trans_cls") == "identity":
        trans = C.ConditionalIdentityGaussianPDF(Sigma=jnp.asarray(A(m["Q"])[None]))
    else:
        trans = C.ConditionalGaussianPDF(M=jnp.asarray(A(m["A"])[None]), b=jnp.asarray(A(m["b"])[None]), Sigma=jnp.asarray(A(m["Q"])[None]))
    emis = C.ConditionalGaussianPDF(M=jnp.asarray(A(m["C"])[None]), b=jnp.asarray(A(m["d"])[None]), Sigma=jnp.asarray(A(m["R"])[None]))
    filt = _prior("GaussianPDF", m["m0"], m["P0"], m.get("prior_ctor", "sigma"))
    ev = 0.0
    out = []
    ys = A(m["ys"])
    def mk_trans(Qt):
        if m.get("trans_cls") == "identity":
            return C.ConditionalIdentityGaussianPDF(Sigma=jnp.asarray(Qt[None]))
        return C.ConditionalGaussianPDF(M=jnp.asarray(A(m["A"])[None]), b=jnp.asarray(A(m["b"])[None]), Sigma=jnp.asarray(Qt[None]))

    for t in range(T):
        filt = _apply_faults(w, filt, sch["faults"].get(str(t)), t, w.stats)
        inplace = bool(sch.get("inplace", [False] * T)[t])
        if m.get("Qs") is not None:
            Qt = A(m["Qs"])[t]
            if inplace:
                trans.update_Sigma(jnp.asarray(Qt[None]))
                w.stats["update_Sigma_inplace"] += 1
            else:
                trans = mk_trans(Qt)
        if m.get("Rs") is not None:
            Rt = A(m["Rs"])[t]
            if inplace:
                emis.update_Sigma(jnp.asarray(Rt[None]))
                w.stats["update_Sigma_inplace"] += 1
            else:
                emis = C.ConditionalGaussianPDF(M=jnp.asarray(A(m["C"])[None]), b=jnp.asarray(A(m["d"])[None]), Sigma=jnp.asarray(Rt[None]))
        pred = trans.affine_marginal_transformation(filt)
        filt, lp = _update(emis, pred, ys[t], sch["routes"][t], Dz, Dy,
                           yperm=(sch.get("yperms") or [None] * T)[t], uf=(sch.get("ufs") or [False] * T)[t],
                           xperm=(sch.get("xperms") or [None] * T)[t], dens_first=sch.get("dens_first", False))
        ref.envelope(filt)
        ref.I_coh(filt, where=f"kalman step {t} route {sch['routes'][t]}")
        ev += lp
        out.append((A(filt.mu)[0], A(filt.Sigma)[0], ev))
        w.stats["route." + sch["routes"][t]] += 1
    return out


def judge_bayes(m, sch, post, ev, refv, w):
    mu_r, Sig_r, ev_r = refv
    if int(post.R) != 1:
        raise Violation("C11.bayes.R", f"posterior has R={int(post.R)}")
    ref.cmp_lin("C11.bayes.mu", A(post.mu)[0], mu_r, floor=1e-3)
    ref.cmp_lin("C11.bayes.Sigma", A(post.Sigma)[0], Sig_r, floor=1e-9)
    try:
        ref.cmp_log("C11.bayes.evidence", np.asarray(ev), np.asarray(ev_r))
    except Violation as v:
        N, Dy, Dw = A(m["M"]).shape
        n_fac = N if sch.get("one_shot") else sum(1 for x in sch["routes"] if x == "c")
        if n_fac and _k01(w, v, ev, ev_r, n_fac, Dy, Dw):
            return
        raise
    ref.I_coh(post, where="final posterior")
    w.stats["chk.C11"] += 3


def _k01(w, v, ev, ev_r, n_fac, Dy, Dw):
    """Open finding K01: every set_y likelihood factor is off by exactly (Dy-Dw)/2 ln 2pi."""
    pred = n_fac * (Dy - Dw) / 2.0 * LN2PI
    ctx = {"op": "bayes", "name": "one_shot", "Dy": Dy, "Dw": Dw, "N": n_fac,
           "offset_matches": bool(abs((ev - ev_r) - pred) <= 1e-8 * max(1.0, abs(ev_r)))}
    v.detail.update(route="c", predicted_offset=pred, observed_offset=float(ev - ev_r), set_y_factors=n_fac)
    if w.findings is not None and w.findings.match(w, ctx, v):
        w.stats["known_finding_hits"] += 1
        return True
    return False


def judge_kalman(out, refv, w, m=None, sch=None):
    Dy, Dz = A(m["C"]).shape if m is not None else (0, 0)
    for t, ((mu, Sg, ev), (mu_r, Sg_r, ev_r)) in enumerate(zip(out, refv)):
        ref.cmp_lin("C11.kalman.mu", mu, mu_r, floor=1e-3, t=t)
        ref.cmp_lin("C11.kalman.Sigma", Sg, Sg_r, floor=1e-9, t=t)
        try:
            ref.cmp_log("C11.kalman.evidence", np.asarray(ev), np.asarray(ev_r), t=t)
        except Violation as v:
            n_fac = sum(1 for x in sch["routes"][: t + 1] if x == "c") if sch is not None else 0
            if not (n_fac and _k01(w, v, ev, ev_r, n_fac, Dy, Dz)):
                raise
        w.stats["chk.C11"] += 3


def ref_envelope_ok(m):
    """Reference side enforces the envelope: prior, noise, posterior and evidence covariance."""
    try:
        if m["kind"] == "bayes":
            mu, Sig, ev = ref_bayes(m)
            return ref.spectrum_ok(Sig[None]) and ref.spectrum_ok(A(m["S0"])[None])
        outs = ref_kalman(m)
        return all(ref.spectrum_ok(Sg[None]) for _, Sg, _ in outs)
    except Violation:
        return False  # the *reference* left the envelope: discard, never judge


def execute(m, sch, salt=0, findings=None):
    w = World(salt=salt, invariants=("coh",), findings=findings if findings is not None else Findings("C11"))
    if m["kind"] == "bayes":
        post, ev = run_bayes(m, sch, w)
        judge_bayes(m, sch, post, ev, ref_bayes(m), w)
        return w, (A(post.mu)[0], A(post.Sigma)[0], ev)
    out = run_kalman(m, sch, w)
    judge_kalman(out, ref_kalman(m), w, m, sch)
    return w, out[-1]


def _wrap(fn):
    """Library exceptions on legal calls are violations."""
    try:
        return fn()
    except (Violation, ref.IllConditioned):
        raise
    except Exception as e:
        raise Violation("C11.raise", f"{type(e).__name__}: {str(e)[:300]}", exc=type(e).__name__)


def run(seed, tier, prop="C11"):
    t0 = time.time()
    res = common.new_result(seed)
    r = Rng(seed, "c11")
    kind = "bayes" if r.coin(0.6) else "kalman"
    m = gen_bayes(seed, tier) if kind == "bayes" else gen_kalman(seed, tier)
    K = 4 if tier == "quick" else 10
    rate = r.uniform(0.2, 0.7)
    fnd = Findings(prop)
    stats = {}
    import collections

    stats = collections.Counter()
    sigs = []
    digests = []
    if not ref_envelope_ok(m):
        res["discarded"] = 1
        res["wall"] = time.time() - t0
        return res
    finals = []
    for k in range(K):
        sch = gen_bayes_schedule(seed, k, m, rate) if kind == "bayes" else gen_kalman_schedule(seed, k, m, rate)
        try:
            w, fin = _wrap(lambda: execute(m, sch, salt=seed, findings=fnd))
        except ref.IllConditioned:
            res["discarded"] += 1
            continue
        except Violation as v:
            v.detail["schedule"] = k
            res["ok"] = False
            res["violation"] = {"format": 1, "property": prop, "scenario": kind, "seed": int(seed), "tier": tier,
                                "model": util.to_jsonable(m), "schedule": sch,
                                "violation": {"check": v.check, "msg": v.msg, "detail": util.to_jsonable(v.detail)}}
            break
        stats.update(w.stats)
        stats["twins"] += 1
        finals.append(fin)
        digests.append(util.sha_bytes(A(fin[0]), A(fin[1]), np.asarray(fin[2])))
        nontriv = bool(sch.get("one_shot")) or getattr(w, "fired", 0) > 0 or sch.get("perm", None) != sorted(sch.get("perm", [])) or "b" in sch.get("routes", []) or "c" in sch.get("routes", []) or any(sch.get("inplace", []))
        if nontriv:
            sigs.append(util.sha_bytes(kind, repr(sch.get("perm")), repr(sch.get("routes")), repr(sch.get("inplace")), repr(sch.get("hows")), repr(sch.get("ufs")), repr(sch.get("yperms")), repr(sch.get("xperms")), repr(sch.get("dens_first")), repr(sorted(sch["faults"].items())),
                                       repr([np.shape(m[k2]) for k2 in sorted(m) if hasattr(m[k2], "shape")]), m.get("cond_cls", m.get("trans_cls"))))
        res["known"] = sorted(set(res["known"]) | set(w.known))
    if res["ok"] and len(finals) > 1:
        # schedules against each other (path independence proper)
        try:
            for fin in finals[1:]:
                ref.cmp_lin("C11.cross.mu", fin[0], finals[0][0], floor=1e-3)
                ref.cmp_lin("C11.cross.Sigma", fin[1], finals[0][1], floor=1e-9)
        except Violation as v:
            res["ok"] = False
            res["violation"] = {"format": 1, "property": prop, "scenario": kind, "seed": int(seed), "tier": tier,
                                "model": util.to_jsonable(m), "schedule": sch,
                                "violation": {"check": v.check, "msg": v.msg, "detail": util.to_jsonable(v.detail)}}
    stats["twins"] -= 1 if stats["twins"] else 0  # the first schedule is the baseline execution
    res["stats"] = dict(stats)
    res["sigs"] = sigs if res["ok"] else []
    res["digest"] = util.sha_bytes(*digests)
    res["known_hits"] = dict(fnd.hits)
    n_steps = (m["y"].shape[0] if kind == "bayes" else m["ys"].shape[0])
    res["steps"] = n_steps * K
    res["states"] = [f"{kind}:{m.get('cond_cls', m.get('trans_cls'))}:N{n_steps}"]
    if (seed % 97 == 0 or (seed & 0xFFFFF) < 2):
        res["sample"] = {"seed": int(seed), "kind": kind, "shapes": {k2: list(np.shape(v)) for k2, v in m.items() if hasattr(v, "shape")},
                         "last_schedule": sch}
    res["wall"] = time.time() - t0
    return res


def replay(record):
    m = util.from_jsonable(record["model"])
    sch = record["schedule"]
    try:
        _wrap(lambda: execute(m, sch, salt=record["seed"]))
    except Violation as v:
        return v
    except ref.IllConditioned:
        return None
    return None


def minimise(record, budget=60):
    """Drop faults, then observations / time steps from the end, while the same check fails."""
    t0 = time.time()
    target = record["violation"]["check"]

    def fails(rec):
        v = replay(rec)
        return v if (v is not None and v.check == target) else None

    best = record
    if fails(record) is None:
        return record
    # faults
    sch = best["schedule"]
    if sch.get("faults"):
        cand = copy.deepcopy(best)
        cand["schedule"]["faults"] = {}
        if fails(cand) is not None:
            best = cand
    m = util.from_jsonable(best["model"])
    if m["kind"] == "bayes" and not best["schedule"].get("one_shot"):
        # keep only a prefix of the delivery order
        perm = best["schedule"]["perm"]
        for keep in range(1, len(perm)):
            if time.time() - t0 > budget:
                break
            cand = copy.deepcopy(best)
            cand["schedule"]["perm"] = perm[:keep]
            cand["schedule"]["routes"] = best["schedule"]["routes"][:keep]
            idx = sorted(perm[:keep])
            remap = {o: n for n, o in enumerate(idx)}
            mm = copy.deepcopy(m)
            for k in ("M", "b", "Sigma", "y", "U"):
                if m.get(k) is None:
                    continue
                mm[k] = A(m[k])[idx]
            cand["model"] = util.to_jsonable(mm)
            cand["schedule"]["perm"] = [remap[i] for i in perm[:keep]]
            cand["schedule"]["faults"] = {k: v for k, v in best["schedule"]["faults"].items() if int(k) < keep}
            v = fails(cand)
            if v is not None:
                cand["violation"] = {"check": v.check, "msg": v.msg, "detail": util.to_jsonable(v.detail)}
                best = cand
                break
    elif m["kind"] == "bayes":
        N = A(m["y"]).shape[0]
        for keep in range(1, N):
            cand = copy.deepcopy(best)
            mm = copy.deepcopy(m)
            for k in ("M", "b", "Sigma", "y", "U"):
                if m.get(k) is None:
                    continue
                mm[k] = A(m[k])[:keep]
            cand["model"] = util.to_jsonable(mm)
            v = fails(cand)
            if v is not None:
                cand["violation"] = {"check": v.check, "msg": v.msg, "detail": util.to_jsonable(v.detail)}
                best = cand
                break
    else:
        T = A(m["ys"]).shape[0]
        for keep in range(1, T):
            cand = copy.deepcopy(best)
            mm = copy.deepcopy(m)
            mm["ys"] = A(m["ys"])[:keep]
            cand["model"] = util.to_jsonable(mm)
            cand["schedule"]["routes"] = best["schedule"]["routes"][:keep]
            cand["schedule"]["faults"] = {k: v for k, v in best["schedule"]["faults"].items() if int(k) < keep}
            v = fails(cand)
            if v is not None:
                cand["violation"] = {"check": v.check, "msg": v.msg, "detail": util.to_jsonable(v.detail)}
                best = cand
                break
    best = dict(best)
    best["minimised"] = {"seconds": round(time.time() - t0, 1)}
    return best
