"""General history scenario: step invariants on every reachable object + query twins.

Serves C04 (I_coh + twins under warm / dup / evict / fast-path flips) and C02 (I_mass).
One workload W is generated and executed (baseline), then executed K more times under K
fault schedules; every observation must agree with the baseline.
"""
import copy
import time

from .. import gen, model, ref, util
from ..findings import Findings
from ..model import World, run_records, KnownFindingStop
from ..ref import IllConditioned, Violation
from . import common

PROFILES = {
    "C04": dict(invariants=("coh", "imm"), kinds=("warm", "warm", "warm", "dup", "dup", "evict", "evict", "restore_flatten"), flips=True),
    "C02": dict(invariants=("coh", "mass", "imm"), kinds=("warm", "warm", "evict", "evict", "restore_flatten"), flips=True),
    "C19": dict(invariants=("samp", "coh", "imm"), kinds=("warm", "evict", "rekey", "rekey", "restore_dict"), flips=True, profile="sample"),
    "C15": dict(invariants=("coh", "imm"), kinds=("swap", "swap", "swap", "warm"), flips=False, profile="repr"),
    "C01": dict(invariants=("prod", "imm", "coh"), kinds=("warm", "warm", "evict", "dup"), flips=True, profile="product"),
}


def flip_records(records, seed, k):
    """Fast-path perturbation: flip update_full on a seeded subset of product steps."""
    r = util.Rng(seed, "flips", k)
    flips = [i for i, rec in enumerate(records)
             if (rec["op"] == "multiply" and rec.get("how") != "star" and r.coin(0.4))
             or (rec.get("name") == "sample" and rec["n"] <= 4096 and r.coin(0.08))]
    return apply_flips(records, flips), flips


def apply_flips(records, flips):
    out = list(records)
    for i in flips:
        rec = dict(out[i])
        if rec.get("name") == "sample":
            rec["jit"] = not rec.get("jit", False)
        else:
            rec["uf"] = not rec["uf"]
        out[i] = rec
    return out


def sample_bitwise_keys(records, flips):
    return {(i, "sample") for i, r in enumerate(records) if r.get("name") == "sample" and i not in set(flips)}


def check_dups(records, w, bitwise=True):
    """C19 replay oracle: the same (density, key, n) drawn again later is bit-identical (in an
    unperturbed execution; under faults that recompute caches, e.g. compute_mu(), equal to rounding)."""
    n = 0
    for i, r in enumerate(records):
        j = r.get("dup_of")
        if j is None or (i, "sample") not in w.outputs or (j, "sample") not in w.outputs:
            continue
        if bitwise and bool(r.get("jit")) == bool(records[j].get("jit")):
            ref.cmp_bits("I_samp.replay_bits", w.outputs[(i, "sample")], w.outputs[(j, "sample")], step=i, first=j)
        else:
            ref.cmp_lin("I_samp.replay_ctx", w.outputs[(i, "sample")], w.outputs[(j, "sample")], floor=1e-3, step=i, first=j)
        n += 1
    return n


def execute(prop, records, faults, salt, flips=(), findings_enabled=True):
    """Pure re-execution of (records, faults, flips): used for twins, minimisation and replay."""
    prof = PROFILES[prop]
    w = World(salt=salt, invariants=prof["invariants"], findings=Findings(prop, enabled=findings_enabled))
    recs = apply_flips(records, flips)
    run_records(recs, w, faults=faults)
    check_dups(recs, w, bitwise=not faults)
    return w


def run(seed, tier, prop):
    t0 = time.time()
    prof = PROFILES[prop]
    res = common.new_result(seed)
    cfg = gen.swarm(seed, tier, prof.get("profile", "general"))
    K = 3 if tier == "quick" else 8
    ref.QUAD_MAX_D[0] = 1 if tier == "quick" else 2
    fnd = Findings(prop)
    w0 = World(salt=seed, invariants=prof["invariants"], findings=fnd)
    g = gen.Gen(seed, cfg, w0)
    records = g.records
    stats = w0.stats
    try:
        try:
            g.history()
        except IllConditioned:
            res["discarded"] += 1
        res["discarded"] += g.discarded
        stats["chk.dup_replay"] += check_dups(records, w0)
        digests = [w0.digest()]
        fired_total = 0
        sigs = []
        for k in range(K):
            kinds = tuple(x for x in prof["kinds"] if not x.startswith("restore_"))
            vias = tuple(x.split("_", 1)[1] for x in prof["kinds"] if x.startswith("restore_"))
            faults, n = gen.fault_schedule(seed, k, records, cfg, kinds=kinds, restore_vias=vias,
                                           slot_cls={sid: sl.cls for sid, sl in w0.slots.items()})
            recs_k, flips = flip_records(records, seed, k) if prof["flips"] else (records, [])
            nflip = len(flips)
            w = World(salt=seed, invariants=prof["invariants"], findings=fnd)
            try:
                run_records(recs_k, w, faults=faults)
            except IllConditioned:
                res["discarded"] += 1
                continue
            except KnownFindingStop:
                continue
            except Violation as v:
                v.detail["twin"] = k
                res["ok"] = False
                res["violation"] = common.violation_record(prop, "history", seed, tier, cfg, records, faults, v, {"flips": flips})
                break
            try:
                stats["chk.dup_replay"] += check_dups(recs_k, w, bitwise=False)
                ncmp = common.compare_outputs(w0.outputs, w.outputs, prefix="twin")
            except Violation as v:
                v.detail["twin"] = k
                res["ok"] = False
                res["violation"] = common.violation_record(prop, "history", seed, tier, cfg, records, faults, v, {"flips": flips})
                break
            stats["chk.twin"] += ncmp
            stats.update(w.stats)
            w0.reach.update(w.reach)
            w0.state_sigs |= w.state_sigs
            w0.interleavings |= w.interleavings
            fired = getattr(w, "fired", 0) + nflip
            fired_total += fired
            digests.append(w.digest())
            if fired and ncmp:
                sigs.append(common.sig_of(recs_k, sorted((k2, f["kind"], f.get("q", "")) for k2, fs in faults.items() for f in fs)))
            stats["twins"] += 1
    except Violation as v:
        res["ok"] = False
        res["violation"] = common.violation_record(prop, "history", seed, tier, cfg, records, {}, v)
    res["stats"] = dict(stats)
    res["reach"] = dict(w0.reach)
    res["sigs"] = sigs if res["ok"] else []
    res["digest"] = util.sha_bytes(*digests) if res["ok"] else ""
    res["known"] = sorted(set(w0.known))
    res["known_hits"] = dict(fnd.hits)
    res["steps"] = len(records) * (1 + K)
    res["states"] = sorted(w0.state_sigs)
    res["inter"] = sorted(repr(x) for x in w0.interleavings)
    if (seed % 97 == 0 or (seed & 0xFFFFF) < 2) or not res["ok"]:
        res["sample"] = {"seed": int(seed), "config": {k: v for k, v in cfg.items() if k != "weights"},
                         "ops": [r["op"] + ":" + str(r.get("cls") or r.get("how") or r.get("which") or r.get("name") or "") for r in records],
                         "last_fault_schedule": {str(a): b for a, b in (faults if "faults" in dir() else {}).items()},
                         "last_update_full_flips": list(flips) if "flips" in dir() else []}
    res["wall"] = time.time() - t0
    return res


def replay(record):
    """Re-execute a violation record without any generator code; returns the Violation or None."""
    prop = record["property"]
    records = util.from_jsonable(record["records"])
    faults = {int(k): v for k, v in record.get("faults", {}).items()}
    flips = record.get("flips", [])
    try:
        w0 = execute(prop, records, None, record["seed"])
        if faults or flips:
            w = execute(prop, records, faults, record["seed"], flips=flips)
            common.compare_outputs(w0.outputs, w.outputs, prefix="twin")
    except Violation as v:
        return v
    except (IllConditioned, KnownFindingStop):
        return None
    return None
