"""Shared scenario plumbing: result records, output comparison, twin execution."""
import copy
import time
import traceback

import numpy as np

from .. import model, ref, util
from ..findings import Findings
from ..ref import IllConditioned, Violation

LOG_NAMES = (
    "evaluate_ln", "log_integral", "log_integral_light", "entropy", "kl", "conditional_entropy",
    "mutual_information", "integrate_log", "integrate_log_conditional", "integrate_log_conditional_y",
    "attr.ln_det_Sigma", "attr.ln_det_Lambda", "attr.lnZ", "attr.ln_beta", "dict.ln_beta", "dict.ln_det_Sigma",
)


def compare_value(check, name, got, want, **ctx):
    if name in LOG_NAMES:
        return ref.cmp_log(check, got, want, **ctx)
    if name == "is_normalized":
        return ref.cmp_bits(check, got, want, **ctx)
    floor = 1e-6 if (name.startswith("attr.") or name.startswith("dict.")) else 1e-300
    if name in ("attr.mu", "attr.nu", "attr.b", "get_conditional_mu", "sample"):
        floor = 1e-3
    return ref.cmp_lin(check, got, want, floor=floor, **ctx)


def compare_outputs(base, pert, prefix="twin", only=None, bitwise=()):
    """Every observation present in both executions agrees (the properties' equality)."""
    n = 0
    for k in sorted(base):
        if k not in pert:
            continue
        if only is not None and not only(k):
            continue
        if k in bitwise:
            ref.cmp_bits(f"{prefix}.{k[1]}.bits", pert[k], base[k], step=k[0], output=k[1])
            n += 1
            continue
        compare_value(f"{prefix}.{k[1]}", k[1], pert[k], base[k], step=k[0], output=k[1])
        n += 1
    return n


def jsonable_records(records):
    out = []
    for r in records:
        out.append({k: v for k, v in r.items() if k != "_i"})
    return util.to_jsonable(out)


def violation_record(prop, scenario, seed, tier, cfg, records, faults, v, extra=None):
    d = {k: val for k, val in v.detail.items()}
    rec = {
        "format": 1, "property": prop, "scenario": scenario, "seed": int(seed), "tier": tier,
        "config": cfg, "records": jsonable_records(records),
        "faults": {str(k): f for k, f in (faults or {}).items()},
        "violation": {"check": v.check, "msg": v.msg, "detail": util.to_jsonable(d)},
    }
    if extra:
        rec.update(extra)
    return rec


def sig_of(records, faults_fired):
    """Run signature: op-kind / class sequence together with fired perturbations."""
    parts = []
    for r in records:
        parts.append(r["op"] + ":" + str(r.get("cls") or r.get("how") or r.get("which") or r.get("name") or ""))
    return util.sha_bytes("|".join(parts), repr(faults_fired))


class RunResult(dict):
    """Plain dict (picklable) with the fields the engine aggregates."""


def new_result(seed):
    return RunResult(seed=int(seed), ok=True, violation=None, stats={}, reach={}, sigs=[], nontrivial=0,
                     digest="", sample=None, discarded=0, known=[], steps=0, states=[], inter=[], wall=0.0,
                     harness_error=None)
