"""C18 - JAX transformations and round trips preserve values (gradient clause excluded).

A recorded eager workload (baseline) is re-executed under boundary perturbations:
  J1  whole program under jit (objects built inside the trace)
  J2  program cut into two jitted stages, objects passed as jit *results and arguments*
  J3  a jitted stage closes over eagerly built objects, the eager continuation keeps using
      the same objects (tracer leakage = state written by one context observed by the other)
  F/D tree_flatten->tree_unflatten / to_dict->from_dict restarts at seeded points, with the
      crossing object's caches cold or warmed by a preceding query
  V   vmap over a data axis vs. the stacked eager result
  S   chain (Kalman) workloads as lax.scan with the density as carry vs. the eager loop
Every observation must equal the eager baseline; a boundary that raises is a violation.
"""
import collections
import copy
import time

import numpy as np

from .. import gen, model, perturb, ref, util
from ..findings import Findings
from ..model import World, Slot, exec_step, run_records, KnownFindingStop, lib
from ..ref import A, IllConditioned, Violation
from ..util import Rng
from . import bayes, common

MODES = ("J1", "J2", "J3", "FD", "V", "J4")


def float_inputs(records):
    inp = {}
    for i, rec in enumerate(records):
        for k, v in rec.items():
            if isinstance(v, np.ndarray) and v.dtype.kind == "f":
                inp[f"{i}.{k}"] = v
            elif k == "kw" and isinstance(v, dict):
                for k2, v2 in v.items():
                    if isinstance(v2, np.ndarray) and v2.dtype.kind == "f":
                        inp[f"{i}.kw.{k2}"] = v2
    return inp


def _traced_run(records, lo, hi, inputs, objs, us):
    """Body of a jitted stage: run records[lo:hi] on tracers; return (outputs, objects, control inputs)."""
    w = World(traced=inputs, invariants=())
    for sid, o in objs.items():
        s = Slot(sid, o, ref.kind_of(o), -1, "arg")
        s.u = us.get(sid)
        w.slots[sid] = s
    for i in range(lo, hi):
        exec_step(w, records[i], i)
    outs = {f"{k[0]}|{k[1]}": v for k, v in w.outputs.items()}
    return outs, {sid: s.obj for sid, s in w.slots.items()}, {sid: s.u for sid, s in w.slots.items() if s.u is not None}


def _outs(d):
    out = {}
    for k, v in d.items():
        i, name = k.split("|", 1)
        out[(int(i), name)] = np.asarray(v)
    return out


def _wrap(tag, fn):
    try:
        return fn()
    except (Violation, IllConditioned, KnownFindingStop):
        raise
    except Exception as e:
        raise Violation(f"C18.{tag}.raise", f"{type(e).__name__}: {str(e)[:300]}", exc=type(e).__name__)


def run_J1(records, salt):
    jax = lib()["jax"]
    inputs = {k: lib()["jnp"].asarray(v) for k, v in float_inputs(records).items()}
    f = jax.jit(lambda inp: _traced_run(records, 0, len(records), inp, {}, {})[0])
    return _outs(_wrap("J1", lambda: f(inputs)))


def needed_after(records, cut):
    """Slots defined before `cut` that are used at or after it (only those cross the boundary)."""
    defined = set()
    for r in records[:cut]:
        if "out" in r:
            defined.add(r["out"])
    used = set()
    for r in records[cut:]:
        used.update(model.operands(r))
    return defined & used


def run_J2(records, cut, salt):
    jax = lib()["jax"]
    jnp = lib()["jnp"]
    inputs = {k: jnp.asarray(v) for k, v in float_inputs(records).items()}
    keep = needed_after(records, cut)

    def stage1(inp):
        outs, objs, us = _traced_run(records, 0, cut, inp, {}, {})
        return outs, {sid: o for sid, o in objs.items() if sid in keep}, {sid: u for sid, u in us.items() if sid in keep}

    def stage2(inp, objs, us):
        return _traced_run(records, cut, len(records), inp, objs, us)[0]

    o1, objs, us = _wrap("J2.stage1", lambda: jax.jit(stage1)(inputs))
    for sid, o in objs.items():
        ref.I_leak(o, where=f"J2 result slot {sid}")
    o2 = _wrap("J2.stage2", lambda: jax.jit(stage2)(inputs, objs, us))
    out = _outs(o1)
    out.update(_outs(o2))
    return out, len(objs)


def run_J4(records, cut, salt, findings, faults=None):
    """eager [0,cut) (optionally with cache-warming faults) -> the eager objects are passed as jit
    *arguments* into the rest of the program (flatten of eager objects with cold or populated caches)."""
    jax = lib()["jax"]
    jnp = lib()["jnp"]
    w = World(salt=salt, invariants=("coh",), findings=findings)
    run_records(records, w, stop=cut, faults=faults)
    inputs = {k: jnp.asarray(v) for k, v in float_inputs(records).items()}
    keep = needed_after(records, cut)
    objs = {sid: s.obj for sid, s in w.slots.items() if not s.tainted and sid in keep}
    us = {sid: s.u for sid, s in w.slots.items() if s.u is not None and sid in keep}
    # a seeded subset of the crossing objects goes through a dict / flatten restart first
    # (restored objects must be as good as the originals as jit arguments)
    rr = Rng(salt, "J4-restore", cut)
    for sid in sorted(objs):
        if rr.coin(0.4):
            via = rr.choice(["dict", "flatten"])
            try:
                new = perturb.restore(objs[sid], via)
            except Exception as e:
                raise Violation("raise.restore." + via, f"{type(e).__name__}: {str(e)[:200]}", slot=sid)
            if new is not None:
                objs[sid] = new
                w.stats["fault_fired.restore_before_crossing"] += 1

    def stage2(inp, objs_, us_):
        return _traced_run(records, cut, len(records), inp, objs_, us_)[0]

    o2 = _wrap("J4.stage2", lambda: jax.jit(stage2)(inputs, objs, us))
    for sid, o in objs.items():
        ref.I_leak(o, where=f"J4 argument slot {sid}")
    out = dict(w.outputs)
    out.update(_outs(o2))
    return out, len(objs)


def run_J3(records, cut, mid, salt, findings):
    """eager [0,cut) -> jit closure over the eager objects [cut,mid) -> eager [mid,end) on the same objects."""
    jax = lib()["jax"]
    jnp = lib()["jnp"]
    w = World(salt=salt, invariants=("coh",), findings=findings)
    run_records(records, w, stop=cut)
    inputs = {k: jnp.asarray(v) for k, v in float_inputs(records).items()}
    objs = {sid: s.obj for sid, s in w.slots.items() if not s.tainted}
    us = {sid: s.u for sid, s in w.slots.items() if s.u is not None}
    masks = {sid: ref.cache_mask(o) for sid, o in objs.items()}
    kinds = {sid: ref.kind_of(o) for sid, o in objs.items()}

    keep = needed_after(records, mid)

    def stage(inp):
        outs, objs2, us2 = _traced_run(records, cut, mid, inp, objs, us)
        new = {sid: o for sid, o in objs2.items() if sid not in objs and sid in keep}
        return outs, new, {sid: u for sid, u in us2.items() if sid not in objs}

    o_mid, new_objs, new_us = _wrap("J3.stage", lambda: jax.jit(stage)(inputs))
    for (i, name), v in _outs(o_mid).items():
        w.outputs[(i, name)] = v
    for sid, o in new_objs.items():
        s = Slot(sid, o, ref.kind_of(o), mid, "jit")
        s.u = new_us.get(sid)
        w.slots[sid] = s
    # state written under the trace must not be observable from the eager world
    for sid, o in objs.items():
        try:
            ref.I_leak(o, where=f"J3 closed-over slot {sid} ({type(o).__name__}, caches before: '{masks[sid]}')")
        except Violation as v:
            ctx = {"op": "closure", "name": "J3", "cls_a": type(o).__name__, "kind_a": kinds[sid], "mask_a": masks[sid]}
            if findings is not None and findings.match(w, ctx, v):
                w.stats["known_finding_hits"] += 1
                w.slots[sid].tainted = True
                continue
            raise
    # eager continuation; records touching a poisoned (known finding) slot are skipped
    dead = {sid for sid, s in w.slots.items() if s.tainted}
    for i in range(mid, len(records)):
        rec = records[i]
        if any(sid in dead for sid in model.operands(rec)):
            if "out" in rec:
                dead.add(rec["out"])
            continue
        _wrap("J3.continue", lambda: exec_step(w, rec, i))
    return w, len(objs)


def run_V(records, w0, salt):
    """vmap over the data axis of evaluation-type observers vs the stacked eager result."""
    jax = lib()["jax"]
    jnp = lib()["jnp"]
    n = 0
    for i, rec in enumerate(records):
        if rec["op"] != "obs" or rec["a"] not in w0.slots:
            continue
        name = rec["name"]
        s = w0.slots[rec["a"]]
        if s.tainted or s.u is not None:
            continue
        o = s.obj
        if name in ("evaluate_ln", "evaluate", "call") and not rec.get("ew") and (i, name) in w0.outputs:
            x = jnp.asarray(rec["x"])
            fn = {"evaluate_ln": o.evaluate_ln, "evaluate": o.evaluate, "call": o.__call__}[name]
            got = _wrap("V", lambda: jax.vmap(lambda xi: fn(xi[None])[:, 0])(x))  # [N, R]
            # the object may have been mutated later in the baseline history: recompute eagerly now
            want = A(fn(x))
            common.compare_value("C18.V." + name, name, A(got).T, want, step=i)
            n += 1
        elif name == "integrate_log_conditional_y" and rec["p"] in w0.slots and not w0.slots[rec["p"]].tainted \
                and w0.slots[rec["p"]].R > 1 and not rec.get("callable"):
            pp = w0.slots[rec["p"]].obj
            pcls = type(pp)
            y = jnp.asarray(rec["y"])
            got = _wrap("V", lambda: jax.vmap(lambda S, m, yi: o.integrate_log_conditional_y(pcls(Sigma=S[None], mu=m[None]), y=yi[None])[0])(pp.Sigma, pp.mu, y))
            want = A(o.integrate_log_conditional_y(ref.clone(pp), y=y))
            common.compare_value("C18.V.integrate_log_conditional_y", name, A(got), want, step=i)
            n += 1
        elif name == "get_conditional_mu" and s.cls not in model.APPROX:
            x = jnp.asarray(rec["x"])
            got = _wrap("V", lambda: jax.vmap(lambda xi: o.get_conditional_mu(xi[None])[:, 0])(x))  # [N, R, Dy]
            want = A(o.get_conditional_mu(x))
            common.compare_value("C18.V.get_conditional_mu", name, np.swapaxes(A(got), 0, 1), want, step=i)
            got2 = _wrap("V", lambda: jax.vmap(lambda xi: o.condition_on_x(xi[None]).mu)(x))  # [N, R, Dy]
            common.compare_value("C18.V.condition_on_x", name, np.swapaxes(A(got2), 0, 1), want, step=i)
            n += 2
    n += run_V_components(records, w0, salt)
    n += run_V_conditionals(w0, salt)
    return n


def run_V_conditionals(w0, salt):
    """vmap over paired (input density, observation) data of integrate_log_conditional_y for every
    single-component conditional alive at the end of the baseline, against the eager batched call."""
    L = lib()
    jax, jnp, P = L["jax"], L["jnp"], L["pdf"]
    n = 0
    for sid in sorted(w0.slots):
        s = w0.slots[sid]
        if s.tainted or s.kind != "cond" or s.u is not None or s.R != 1 or s.cls in model.IDENT:
            continue
        o = s.obj
        Dx, Dy = int(o.Dx), int(o.Dy)
        r = Rng(salt, "Vcond", sid)
        N = 3
        Sig = r.spd(N, Dx, 10.0, scale_lo=0.2, scale_hi=0.5)
        mu = r.normal((N, Dx), 0.4)
        if s.cls in model.HETERO:
            Wm = A(o.W)
            w_ = Wm[:, 1:]
            if np.max(np.einsum("kd,rde,ke->rk", w_, Sig, w_)) > 2.0 or np.max(np.abs(mu @ w_.T + Wm[:, 0][None])) > 3.0:
                continue
        y = jnp.asarray(r.normal((N, Dy), 1.0))
        pp = P.GaussianPDF(Sigma=jnp.asarray(Sig), mu=jnp.asarray(mu))
        try:
            want = A(o.integrate_log_conditional_y(pp, y=y))
        except NotImplementedError:
            continue
        got = _wrap("V", lambda: jax.vmap(lambda S, m, yi: o.integrate_log_conditional_y(P.GaussianPDF(Sigma=S[None], mu=m[None]), y=yi[None])[0])(pp.Sigma, pp.mu, y))
        common.compare_value("C18.Vd.integrate_log_conditional_y", "integrate_log_conditional_y", A(got), want, slot=sid, cls=s.cls)
        n += 1
    return n


def run_V_components(records, w0, salt):
    """vmap over the *component* axis: build a single-component object from each component's
    parameters inside vmap, apply an observer battery, and compare with the eager batched result
    (vmap(f) vs. stacked f - a batch leak in the eager code shows as a mismatch)."""
    L = lib()
    jax, jnp = L["jax"], L["jnp"]
    n = 0
    for sid in sorted(w0.slots):
        s = w0.slots[sid]
        if s.tainted or s.kind not in ("measure", "pdf") or s.R < 2:
            continue
        o = s.obj
        cls = type(o)
        D = int(o.D)
        if s.kind == "pdf":
            params = (o.Sigma, o.mu)
            mk = lambda S, m, cls=cls: cls(Sigma=S[None], mu=m[None])
        else:
            params = (o.Lambda, o.nu, o.ln_beta)
            mk = lambda Lm, nu, lb, cls=cls: cls(Lambda=Lm[None], nu=nu[None], ln_beta=lb[None])
        x = jnp.asarray(ref.generic_points(D, ("Vc", salt, sid))[:3])
        Amat = jnp.asarray(ref.generic_points(D, ("VcA", salt, sid))[:2])
        battery = [
            ("log_integral", lambda q: q.log_integral()),
            ("evaluate_ln", lambda q: q.evaluate_ln(x)),
            ("integrate", lambda q: q.integrate("x")),
            ("integrate", lambda q: q.integrate("xx'")),
            ("integrate", lambda q: q.integrate("(Ax+a)'(Bx+b)", A_mat=Amat, B_mat=Amat)),
        ]
        if s.kind == "pdf":
            q1 = ref.clone(o).slice(jnp.asarray([0]))
            battery += [
                ("entropy", lambda q: q.entropy()),
                ("kl", lambda q: q.kl_divergence(q1)),
                ("kl", lambda q: q1.kl_divergence(q)),
            ]
        for name, fn in battery:
            want = A(fn(ref.clone(o)))
            got = _wrap("V", lambda: jax.vmap(lambda *p: fn(mk(*p))[0])(*params))
            common.compare_value("C18.Vc." + name, name, A(got), want, slot=sid, observer=name)
            n += 1
        if s.kind == "pdf":
            # paired KL: both sides batched
            want = A(ref.clone(o).kl_divergence(ref.clone(o).slice(jnp.asarray(list(range(1, s.R)) + [0]))))
            o2 = ref.clone(o).slice(jnp.asarray(list(range(1, s.R)) + [0]))
            got = _wrap("V", lambda: jax.vmap(lambda S, m, S2, m2: cls(Sigma=S[None], mu=m[None]).kl_divergence(type(o2)(Sigma=S2[None], mu=m2[None]))[0])(o.Sigma, o.mu, o2.Sigma, o2.mu))
            common.compare_value("C18.Vc.kl", "kl", A(got), want, slot=sid, observer="kl paired")
            n += 1
    return n


# ---------------------------------------------------------------------------------------
# S: scan with the density as carry


def run_scan(m, sch):
    L = lib()
    jax, jnp, C = L["jax"], L["jnp"], L["conditional"]
    Dz = len(A(m["m0"]))
    trans = C.ConditionalGaussianPDF(M=jnp.asarray(A(m["A"])[None]), b=jnp.asarray(A(m["b"])[None]), Sigma=jnp.asarray(A(m["Q"])[None]))
    emis = C.ConditionalGaussianPDF(M=jnp.asarray(A(m["C"])[None]), b=jnp.asarray(A(m["d"])[None]), Sigma=jnp.asarray(A(m["R"])[None]))
    p0 = bayes._prior("GaussianPDF", m["m0"], m["P0"])
    ys = jnp.asarray(A(m["ys"]))
    route = sch["route"]
    Dy = ys.shape[1]

    def kf_step(filt, y_t):
        pred = trans.affine_marginal_transformation(filt)
        if route == "a":
            post = emis.affine_conditional_transformation(pred).condition_on_x(y_t[None])
            lp = emis.affine_marginal_transformation(pred).evaluate_ln(y_t[None])[0, 0]
        else:
            joint = emis.affine_joint_transformation(pred)
            ydims = np.arange(Dz, Dz + Dy)
            post = joint.condition_on(ydims).condition_on_x(y_t[None])
            lp = joint.get_marginal(ydims).evaluate_ln(y_t[None])[0, 0]
        return post, (post.mu[0], post.Sigma[0], lp)

    # eager loop
    filt = p0
    eager = []
    for t in range(ys.shape[0]):
        filt, res = kf_step(filt, ys[t])
        eager.append(tuple(A(r) for r in res))
    p0b = bayes._prior("GaussianPDF", m["m0"], m["P0"])
    if sch.get("warm_carry"):
        p0b.integrate("x")
    last, (mus, Sigs, lps) = _wrap("S.scan", lambda: jax.lax.scan(kf_step, p0b, ys))
    for t in range(ys.shape[0]):
        ref.cmp_lin("C18.S.mu", A(mus)[t], eager[t][0], floor=1e-3, t=t)
        ref.cmp_lin("C18.S.Sigma", A(Sigs)[t], eager[t][1], floor=1e-9, t=t)
        ref.cmp_log("C18.S.logpred", A(lps)[t], eager[t][2], t=t)
    ref.I_leak(last)
    ref.I_coh(last, where="scan final carry")
    ref.cmp_lin("C18.S.carry_mu", A(last.mu)[0], eager[-1][0], floor=1e-3)
    ref.I_leak(p0b)
    return 3 * ys.shape[0] + 2


# ---------------------------------------------------------------------------------------


def choose_cuts(records, r):
    """cut points for J2/J3 such that the traced J3 segment contains no in-place mutator."""
    n = len(records)
    if n < 2:
        return None
    cut = r.integers(1, n - 1)
    mid = r.integers(cut + 1, n)
    for i in range(cut, mid):
        if records[i]["op"] in model.MUTATORS:
            mid = i
            break
    if mid <= cut:
        return cut, None
    return cut, mid


def perturbed(mode, records, detail, seed, fnd, w0):
    """One perturbed execution; returns (outputs dict or None, n_compared_extra, crossed objects)."""
    if mode == "J1":
        return run_J1(records, seed), 0, 1
    if mode == "J2":
        out, nobj = run_J2(records, detail["cut"], seed)
        return out, 0, nobj
    if mode == "J3":
        w, nobj = run_J3(records, detail["cut"], detail["mid"], seed, fnd)
        return w.outputs, 0, nobj
    if mode == "J4":
        faults = {int(k): v for k, v in detail.get("faults", {}).items()}
        out, nobj = run_J4(records, detail["cut"], seed, fnd, faults=faults)
        return out, 0, nobj
    if mode == "FD":
        w = World(salt=seed, invariants=("coh", "imm"), findings=fnd)
        faults = {int(k): v for k, v in detail["faults"].items()}
        run_records(records, w, faults=faults)
        return w.outputs, 0, getattr(w, "fired", 0)
    if mode == "V":
        n = run_V(records, w0, seed)
        return None, n, n
    raise KeyError(mode)


def gen_detail(mode, records, seed, k, cfg, w0):
    r = Rng(seed, "c18", k)
    if mode in ("J2", "J3", "J4"):
        cuts = choose_cuts(records, r)
        if cuts is None:
            return None
        cut, mid = cuts
        # only factors, measures, densities and linear conditionals are promised to cross boundaries
        crossing = set(needed_after(records, cut))
        if mode == "J3" and mid is not None:
            crossing |= set(needed_after(records, mid))
        for sid in crossing:
            sl = w0.slots.get(sid)
            if sl is not None and (sl.kind == "trunc" or sl.cls in model.APPROX):
                return None
        if mode == "J2":
            return {"cut": cut}
        if mode == "J4":
            faults, n = gen.fault_schedule(seed, k, records[:cut], cfg, kinds=("warm", "warm"), restore_vias=("dict", "flatten"))
            return {"cut": cut, "faults": {str(a): b for a, b in faults.items()}}
        if mid is None:
            return None
        return {"cut": cut, "mid": mid}
    if mode == "FD":
        faults, n = gen.fault_schedule(seed, k, records, cfg, kinds=("warm",), restore_vias=("dict", "flatten", "flatten"))
        return {"faults": {str(a): b for a, b in faults.items()}}
    return {}


def run(seed, tier, prop="C18"):
    t0 = time.time()
    res = common.new_result(seed)
    r = Rng(seed, "c18-top")
    stats = collections.Counter()
    fnd = Findings(prop)
    sigs, digests = [], []
    if r.coin(0.2):
        # S: scan carry
        m = bayes.gen_kalman(seed, tier)
        m["trans_cls"] = "general"
        m["Rs"] = m["Qs"] = None
        sch = {"route": r.choice(["a", "b"]), "warm_carry": r.coin(0.5)}
        try:
            if bayes.ref_envelope_ok(m):
                n = run_scan(m, sch)
                stats["chk.scan"] += n
                stats["twins"] += 1
                stats["fault_fired.scan_carry"] += 1
                sigs.append(util.sha_bytes("scan", repr(sch), repr([np.shape(v) for v in m.values() if hasattr(v, "shape")])))
            else:
                res["discarded"] += 1
        except IllConditioned:
            res["discarded"] += 1
        except Violation as v:
            res["ok"] = False
            res["violation"] = {"format": 1, "property": prop, "scenario": "scan", "seed": int(seed), "tier": tier,
                                "model": util.to_jsonable(m), "schedule": sch,
                                "violation": {"check": v.check, "msg": v.msg, "detail": util.to_jsonable(v.detail)}}
        res["stats"] = dict(stats)
        res["sigs"] = sigs
        res["steps"] = int(np.shape(m["ys"])[0])
        res["digest"] = util.sha_bytes("scan", res["ok"])
        res["wall"] = time.time() - t0
        return res
    cfg = gen.swarm(seed, tier, "boundary")
    cfg["length"] = min(cfg["length"], 6 if tier == "quick" else 10)
    w0 = World(salt=seed, invariants=("coh", "imm"), findings=fnd)
    g = gen.Gen(seed, cfg, w0)
    records = g.records
    K = 3 if tier == "quick" else 6
    try:
        try:
            g.history()
        except IllConditioned:
            res["discarded"] += 1
        res["discarded"] += g.discarded
        stats.update(w0.stats)
        digests.append(w0.digest())
        for k in range(K):
            mode = Rng(seed, "c18-mode", k).wchoice(list(MODES), [1.0, 1.2, 1.5, 2.0, 1.2, 1.5])
            detail = gen_detail(mode, records, seed, k, cfg, w0)
            if detail is None:
                continue
            try:
                out, nextra, crossed = perturbed(mode, records, detail, seed, fnd, w0)
                ncmp = nextra
                if out is not None:
                    ncmp += common.compare_outputs(w0.outputs, out, prefix="C18." + mode)
            except (IllConditioned, KnownFindingStop):
                res["discarded"] += 1
                continue
            except Violation as v:
                v.detail["mode"] = mode
                res["ok"] = False
                res["violation"] = common.violation_record(prop, "boundary", seed, tier, cfg, records, {}, v, {"mode": mode, "mode_detail": detail})
                break
            stats["chk.twin"] += ncmp
            stats["twins"] += 1
            if crossed and ncmp:
                stats["fault_fired." + mode] += 1
                sigs.append(common.sig_of(records, (mode, repr(sorted(detail.items())))))
    except Violation as v:
        res["ok"] = False
        res["violation"] = common.violation_record(prop, "boundary", seed, tier, cfg, records, {}, v, {"mode": "baseline", "mode_detail": {}})
    res["stats"] = dict(stats)
    res["reach"] = dict(w0.reach)
    res["sigs"] = sigs if res["ok"] else []
    res["digest"] = util.sha_bytes(*digests) if res["ok"] else ""
    res["known_hits"] = dict(fnd.hits)
    res["steps"] = len(records) * (1 + K)
    res["states"] = sorted(w0.state_sigs)
    if (seed % 97 == 0 or (seed & 0xFFFFF) < 2) or not res["ok"]:
        res["sample"] = {"seed": int(seed), "ops": [x["op"] + ":" + str(x.get("cls") or x.get("how") or x.get("which") or x.get("name") or "") for x in records]}
    res["wall"] = time.time() - t0
    return res


def replay(record):
    if record.get("scenario") == "scan":
        m = util.from_jsonable(record["model"])
        try:
            run_scan(m, record["schedule"])
        except Violation as v:
            return v
        except IllConditioned:
            return None
        return None
    records = util.from_jsonable(record["records"])
    mode, detail = record.get("mode", "baseline"), record.get("mode_detail", {})
    fnd = Findings("C18")
    try:
        w0 = World(salt=record["seed"], invariants=("coh", "imm"), findings=fnd)
        run_records(records, w0)
        if mode != "baseline":
            out, nextra, crossed = perturbed(mode, records, detail, record["seed"], fnd, w0)
            if out is not None:
                common.compare_outputs(w0.outputs, out, prefix="C18." + mode)
    except Violation as v:
        return v
    except (IllConditioned, KnownFindingStop):
        return None
    return None


def minimise(record, budget=90):
    """Generic record minimiser, but cut points are re-clamped after each removal."""
    from .. import minimise as M

    if record.get("scenario") == "scan":
        return record
    t0 = time.time()
    target = record["violation"]["check"]
    best = record

    def fails(rec):
        try:
            v = replay(rec)
        except Exception:
            return None
        return v if (v is not None and v.check == target) else None

    if fails(best) is None:
        return best
    mode = best.get("mode")
    changed = True
    while changed and time.time() - t0 < budget:
        changed = False
        recs = best["records"]
        i = len(recs) - 1
        while i >= 0 and time.time() - t0 < budget:
            gone = M._deps_closed_removal(recs, i)
            cand = copy.deepcopy(best)
            cand["records"] = [x for j, x in enumerate(recs) if j not in gone]
            d = dict(cand.get("mode_detail", {}))
            n = len(cand["records"])
            if n == 0:
                i -= 1
                continue
            shift = lambda c: max(0, c - sum(1 for j in gone if j < c))
            if "cut" in d:
                d["cut"] = min(max(1, shift(d["cut"])), max(1, n - 1))
            if "mid" in d:
                d["mid"] = min(max(d["cut"] + 1, shift(d["mid"])), n)
            if "faults" in d:
                nf = {}
                for kk, fs in d["faults"].items():
                    kk = int(kk)
                    if kk in gone:
                        continue
                    nf[str(shift(kk))] = nf.get(str(shift(kk)), []) + fs
                d["faults"] = nf
            cand["mode_detail"] = d
            v = fails(cand)
            if v is not None:
                cand["violation"] = {"check": v.check, "msg": v.msg, "detail": util.to_jsonable(v.detail)}
                best = cand
                recs = best["records"]
                changed = True
                i = min(i, len(recs)) - 1
            else:
                i -= 1
    best = dict(best)
    best["minimised"] = {"from_steps": len(record["records"]), "to_steps": len(best["records"]), "seconds": round(time.time() - t0, 1)}
    return best
