"""Regenerates /verif/MANIFEST.json (run: /venv/bin/python -m gtsim.mk_manifest)."""
import json
import os

VERIF = os.path.dirname(os.path.dirname(os.path.abspath(__file__)))

NA = {
    "C03": "Pure function of (Lambda, nu, ln_beta, coefficients): twelve closed-form moment formulas; no schedule, fault, order or restart enters the statement, so deciding it is property-based testing against an independent moment oracle, not simulation. (History-independence of the integrals is covered as observers in the C04/C12/C18 twins.)",
    "C05": "Single-call algebraic identity on freshly given densities (marginal / linear image): pure function of its inputs; needs an independent formula oracle on sampled inputs, not a simulated history.",
    "C06": "Single-call identity p(x_a|x_b)p(x_b)=p(x): pure function of its inputs with no cache, order, restart or key in the statement.",
    "C07": "Single-call chain-rule identity of the joint transformation: pure function of (conditional, prior); no schedule or fault dimension. Its outputs are still subject to the C02/C04 step invariants.",
    "C08": "Single-call identity of the marginal transformation: pure function of its inputs.",
    "C09": "Bayes-rule identity and two-call round trip on freshly given objects: pure function of its inputs; exercised only as a route inside C11.",
    "C10": "set_y returns a likelihood factor: single-call identity, pure function of (conditional, y); its normaliser defect is reported through C11 where it becomes path dependence.",
    "C13": "Closed-form scalar functionals (entropy, KL, conditional entropy, mutual information) of one or two densities: pure functions; a formula oracle, not a schedule, decides them.",
    "C14": "Expected log-factor / log-conditional integrals: pure functions of (parameters, q) decided by closed form or quadrature over sampled inputs.",
    "C16": "Moment matching of approximate conditionals: pure function of (model parameters, p(x)) whose oracle is numerical quadrature; the only loop is a deterministic bounded lax.while_loop, not a liveness question.",
    "C17": "Heteroscedastic bounds: one-sided inequality and decay ratio in a parameter limit, pure functions decided by quadrature; no history, order, restart or key occurs.",
    "C20": "Truncated 1-D Gaussian integrals: closed-form pure functions of (measure, a, b, k) on an object that is immutable after construction.",
}

LEVEL_NOTE = (
    "Trusted base: numpy/LAPACK float64 (solve, inv, slogdet, eigvalsh) as reference; JAX/XLA CPU as executed; "
    "the harness's own operation model (which calls are legal). Sampling only - a clean batch is evidence, not proof. "
    "Inputs restricted to the properties' conditioning envelope (cond <= 1e4), enforced by the reference."
)

CHECKS = {
    # id: (technique, level text, design ref, extra note)
    "C01": (
        "deterministic simulation: seeded product chains with the operands' cache state set by warm/evict faults and update_full flips; step oracle = operands' point-wise log-values recorded before the call + bit-exact operand snapshots",
        "Seeded search over chains of multiply / * / hadamard / product() where fast paths consume objects produced by fast paths, under schedules that decide whether the operand's covariance is cached (cold / lnZ-only / warm), flip update_full, alias operands and evict. After each product: result == u_i(x) f_j(x) in the documented layout at (D+1)(D+2)/2+1 generic points, operands bit-identical, twins agree. Exploration level (sampling).",
        "DESIGN.md section 4 (C01)",
    ),
    "C11": (
        "deterministic simulation: one model executed under K seeded schedules (delivery order permutations x per-step route a/b/c x restart/evict/warm faults on the carried posterior), compared with each other and with a dense numpy joint",
        "Seeded search over update histories: permutations of the observation order, route per step (conditional transformation / joint+conditioning / one-shot likelihood product), faults between steps; Kalman variant with prediction steps against the dense joint over all states and observations. Posterior mean, covariance and accumulated evidence must be schedule independent. Exploration level (sampling of schedules, not all N! orders).",
        "DESIGN.md section 4 (C11)",
        "Route (c) evidence for Dy != Dw is an open known finding (K01) with an exact predictor; any other discrepancy still fires.",
    ),
    "C12": (
        "deterministic simulation: lock-step twin execution of one seeded history on the batched roots and on root.slice(idx) (membership perturbation: seeded index arrays with repeats / negatives / permutations), component maps carried through every operation",
        "Seeded search over histories and over membership perturbations. After every step each twin observation equals the primary observation indexed through the component map, each twin object equals primary_result.slice(map) attribute-wise (slicing commutes with the operation), and update(idx,d) changed exactly the addressed components bit-exactly. Needs no mathematical reference. Exploration level.",
        "DESIGN.md section 4 (C12)",
    ),
    "C18": (
        "deterministic simulation: an eager baseline history re-executed under boundary faults - jit whole program, two jitted stages with objects as results/arguments, eager objects (cold or warmed caches) as jit arguments, jit closure over eager objects followed by eager reuse (tracer-leak detection), flatten/unflatten and to_dict/from_dict restarts at seeded points with cold or warmed caches, vmap over a data axis, lax.scan with the density as carry",
        "Seeded search over programs (generated pipelines) x boundary perturbations x cut points x cache states of the crossing objects. Every observation of the perturbed execution equals the eager baseline; objects that crossed a boundary are coherent and evaluate to the same function; a boundary that raises or leaks a tracer into an eager object is a violation. The reverse-mode-gradient clause of C18 is NOT decided by this family (no schedule or fault in it) and is excluded. Exploration level.",
        "DESIGN.md section 4 (C18)",
        "Gradient clause (grad vs finite differences) excluded: it is a numerical differentiation check, not a simulation target.",
    ),
    "C15": (
        "deterministic simulation: twin runs of one seeded history under the 'skip the fast path' perturbation - a specialised object (diagonal / identity-mean / rank-one / linear / constant / NN-controlled) is swapped for the general full-matrix object with the same parameters at a seeded step",
        "Seeded search over histories on specialised roots and over swap schedules (root only / mid-history / all). Every observation and every exposed attribute of the perturbed execution must equal the unperturbed one; I_coh on every object. Because both twins may share a defect, the numpy step invariant runs alongside. Exploration level.",
        "DESIGN.md section 4 (C15)",
    ),
    "C19": (
        "deterministic simulation: simulator-owned PRNG key stream; sample() calls interleaved with rekey / warm / evict / restore faults and eager-vs-jit context flips; replay (bit-exact), structural (affine image of the key's normal stream) and 6-sigma statistical oracles",
        "Seeded search over histories that reach densities through constructors, products, slicing, conditioning and transformations, then draw with simulator-owned keys. Replaying the same (density, key, n) later in the history is bit-identical; twins under interleaved sampling and cache faults agree; draws are mu + L z with L L' = Sigma for the key's own normal stream (abstains if another valid use of the stream is made); moments within 6 standard errors for fixed keys. Exploration level.",
        "DESIGN.md section 4 (C19)",
    ),
    "C02": (
        "deterministic simulation: seeded operation histories with cache-state faults (warm/evict/update_full flips); step invariant I_mass against numpy closed-form integrals, evaluated on clones",
        "Seeded search over operation histories and fault schedules (sampling). After every step, every measure/density the step created or mutated is checked: the function it evaluates to, all integral variants, unit mass and independent normal log-density for densities, get_density/normalize. Exploration level: finds history-dependent mass errors (stale lnZ, carried log-dets, determinant-lemma slips) that single-call tests cannot reach; a clean batch is evidence, not proof.",
        "DESIGN.md section 4 (C02), 3",
    ),
    "C04": (
        "deterministic simulation: seeded operation histories x seeded fault schedules (warm / duplicate query / evict-rebuild / fast-path flip); step invariant I_coh against numpy slogdet/solve + baseline-vs-perturbed twin runs",
        "Seeded search over histories of public operations and over schedules of cache-populating queries, evictions and fast-path toggles. Invariant I_coh on every object a step creates, mutates or reads; twin runs must return the same observations as the unperturbed baseline. Exploration level: this is the property the technique fits best (every reachable state coherent, reads unobservable); sampling, not exhaustive.",
        "DESIGN.md section 4 (C04), 3",
    ),
}


def check_entry(pid, technique, text, ref, note=""):
    return {
        "property_id": pid,
        "quick_cmd": f"./check {pid} --tier quick",
        "thorough_cmd": f"./check {pid} --tier thorough",
        "evidence_file": f"evidence/{pid}.json",
        "replay_cmd_template": f"./check {pid} --replay {{path}}",
        "engine": "gtsim",
        "level_claimed": {"category": "exploration", "text": text, "design_ref": ref},
        "level_note": LEVEL_NOTE + (" " + note if note else ""),
        "technique": technique,
    }


def build():
    checks = [check_entry(pid, *CHECKS[pid]) for pid in sorted(CHECKS)]
    claimed = set(CHECKS)
    m = {
        "version": 1,
        "setup_cmd": "./check selftest --short",
        "hooks": {
            "guard": "GAUSSIAN_TOOLBOX_VERIF",
            "enable": "no hooks are needed: every seam the simulator uses (constructors, caches exposed as public attributes, update_full, to_dict/from_dict, the pytree protocol, the PRNG key) is public; the guard name is reserved and unused",
            "baseline_off_cmd": "cd /repo && /venv/bin/python -m pytest -ra -q -p no:cacheprovider --timeout=900 --continue-on-collection-errors",
            "source_commits": [],
            "add_only": True,
        },
        "engines": [{
            "name": "gtsim", "path": "gtsim/", "serves_properties": sorted(claimed),
            "kind_free_text": "deterministic simulation with fault injection: seeded workload generator + seeded fault schedules (warm/dup/evict/restore/context/swap_repr/permute/subbatch/rekey), step invariants against a dense numpy reference, twin-run history comparison, ddmin minimiser, self-contained replay files",
        }],
        "checks": checks,
        "not_applicable": [{"property_id": k, "reason": v} for k, v in sorted(NA.items()) if k not in claimed],
        "notes": "See DESIGN.md. ./check <id> --tier quick|thorough; exit 0 held (KNOWN-FINDING lines allowed) / 1 VIOLATION / 2 harness error or budget overrun.",
    }
    return m


if __name__ == "__main__":
    m = build()
    with open(os.path.join(VERIF, "MANIFEST.json"), "w") as fh:
        json.dump(m, fh, indent=1)
    print("wrote MANIFEST.json with checks:", [c["property_id"] for c in m["checks"]])
