"""Rule / assumption texts written into evidence files (kept next to the code that measures them)."""

_COMMON = (
    "Runs are seeded (run seed = VERIF_SEED*2^20+i). One run = one generated workload executed once as "
    "baseline (generation run) and K more times under K seeded fault schedules. A run is NON-TRIVIAL iff at "
    "least one perturbation fired and changed hidden state (a warm that filled a None cache, an evict of a "
    "warm object, a flipped update_full, a restore, a non-identity index map / permutation, a representation "
    "swap of a slot used afterwards) AND at least one comparison downstream of it was evaluated. "
    "distinct_nontrivial counts DISTINCT signatures (hash of op-kind/class sequence + fired perturbation "
    "kinds and positions) among non-trivial executions."
)

RULES = {
    "C04": "History scenario: invariant I_coh (Sigma*Lambda=I, true log-dets by numpy slogdet, mu=Sigma nu, Gaussian lnZ, shapes) on every object each step creates, mutates or reads; twins under warm/dup/evict/update_full-flip must return the same observations. " + _COMMON,
    "C01": "Product-chain histories: before every multiply/*/hadamard/product() the operands' log-values at (D+1)(D+2)/2+1 generic points and bit-exact snapshots are recorded; afterwards result rows must equal lu[i]+lf[j] at i*R2+j (hadamard: broadcast row; product(): sum), operands bit-identical, I_coh on the result; twins under warm/evict/dup/update_full flips agree. " + _COMMON,
    "C11": "One model (prior + N linear-Gaussian observations, or a state-space model with T observations) executed under K schedules: permutation of the delivery order, route a/b per step or one-shot route c, faults (warm/dup/evict/restore) on the carried posterior between steps; judged against the dense numpy joint and against each other. A schedule is NON-TRIVIAL iff it is not the identity-order all-route-a baseline (permuted, or uses route b/c, or a fault fired). distinct_nontrivial counts distinct (model shape/class, permutation, routes, fault placement) signatures.",
    "C12": "Sub-batch twins: the workload runs in lock step on the batched roots and on root.slice(idx) with seeded idx (subset / permutation / repeats / negative entries); component maps follow the documented layouts (products i*R2+j, conditioning r*N+n, affine: batched side); observations compared through the map, objects compared with library slice of the primary result; update(idx,d) checked bit-exactly. A twin is NON-TRIVIAL iff some root index map is not the identity and at least one comparison ran. distinct_nontrivial counts distinct (op sequence, root index arrays) signatures.",
    "C18": "Boundary twins: eager baseline vs J1 (jit whole), J2 (two jitted stages, objects as results and arguments), J3 (jit closure over eager objects + eager continuation), J4 (eagerly built, optionally warmed objects passed as jit arguments), FD (flatten/unflatten, to_dict/from_dict restarts, optionally after a warming query), V (vmap over a data axis and over the component axis), S (lax.scan with density carry). NON-TRIVIAL iff at least one object crossed a boundary (or a restore fired) and a downstream comparison ran. distinct_nontrivial counts distinct (op sequence, mode, cut points / fault placement) signatures.",
    "C15": "Representation twins: histories on specialised roots; perturbation swap_repr replaces a specialised slot by the general-class object with the same parameters (Diag->full, Identity->M=I,b=0, OneRank->g vv', Linear/Constant->Lambda=0, NN-control->set_control_variable(u)) before a seeded use; all observer outputs and exposed attributes must agree with the unswapped baseline. " + _COMMON,
    "C19": "Sample histories: densities reached through general histories; sample(key,n) with simulator-owned keys; later replays of the same (density,key,n); faults rekey (interleaved draws with other keys), warm, evict, restore and eager/jit flips. " + _COMMON,
    "C02": "History scenario: invariant I_mass (library evaluate_ln == numpy quadratic of public Lambda,nu,ln_beta; all integral variants == numpy closed form from Lambda; densities: mass 1 and independent normal log-density from public mu,Sigma; get_density/normalize == u - ln mass) on every measure/density a step creates or mutates, executed on clones so that the check itself never warms the object. " + _COMMON,
}

_BASE_ASSUME = [
    "sampling, not enumeration: a clean batch is evidence, not proof",
    "inputs inside the conditioning envelope (cond <= 1e4) - histories leaving it are discarded, counted in discarded_illconditioned",
    "numpy/LAPACK float64 solve, inv, slogdet, eigvalsh are the trusted reference",
    "CPU backend, jax_enable_x64 on; eager execution unless the scenario says otherwise",
    "no clock, network, disk or threads exist in the library: none is simulated; 'time' is logical steps",
]
ASSUMPTIONS = {k: list(_BASE_ASSUME) for k in ("C01", "C02", "C04", "C11", "C12", "C15", "C18", "C19")}
