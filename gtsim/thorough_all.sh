#!/bin/sh
export GTSIM_TREE=$VP_RUN_REPO
for p in C04 C01 C02 C11 C12 C15 C18 C19; do
  echo "=== $p"; ./check $p --tier thorough --workers 10 --seed 13 2>&1 | tail -15
done
