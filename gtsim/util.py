"""Seeds, streams, array (de)serialisation, digests.  Pure numpy / stdlib."""
import hashlib
import json

import numpy as np

MASK = (1 << 64) - 1


def splitmix(x):
    x = (x + 0x9E3779B97F4A7C15) & MASK
    z = x
    z = ((z ^ (z >> 30)) * 0xBF58476D1CE4E5B9) & MASK
    z = ((z ^ (z >> 27)) * 0x94D049BB133111EB) & MASK
    return (z ^ (z >> 31)) & MASK


def mix(seed, *streams):
    """Integer mixing (never Python hash()) of a run seed with stream labels."""
    x = splitmix(int(seed) & MASK)
    flat = []

    def _fl(t):
        for e in t:
            if isinstance(e, (tuple, list)):
                _fl(e)
            else:
                flat.append(e)

    _fl(streams)
    for s in flat:
        if isinstance(s, str):
            s = int.from_bytes(hashlib.sha256(s.encode()).digest()[:8], "little")
        x = splitmix(x ^ (int(s) & MASK))
    return x


def rng_for(seed, *streams):
    return np.random.Generator(np.random.PCG64(mix(seed, *streams)))


class Rng:
    """Thin wrapper giving the few draws the generators need, all from one PCG64 stream."""

    def __init__(self, seed, *streams):
        self.g = rng_for(seed, *streams)

    def integers(self, lo, hi):  # inclusive
        return int(self.g.integers(lo, hi + 1))

    def choice(self, seq):
        seq = list(seq)
        return seq[int(self.g.integers(0, len(seq)))]

    def wchoice(self, items, weights):
        w = np.asarray(weights, float)
        c = np.cumsum(w / w.sum())
        u = self.g.random()
        return items[int(min(np.searchsorted(c, u), len(items) - 1))]

    def coin(self, p=0.5):
        return bool(self.g.random() < p)

    def normal(self, shape, scale=1.0):
        return self.g.normal(size=shape) * scale

    def uniform(self, lo, hi, shape=None):
        return self.g.uniform(lo, hi, size=shape)

    def perm(self, n):
        return [int(i) for i in self.g.permutation(n)]

    def orth(self, D):
        q, r = np.linalg.qr(self.g.normal(size=(D, D)))
        return q * np.sign(np.diag(r))[None, :]

    def spd(self, R, D, cond_max=1e3, scale_lo=0.3, scale_hi=3.0, diag=False):
        out = np.empty((R, D, D))
        for r in range(R):
            c = 10 ** self.g.uniform(0, np.log10(cond_max))
            s = 10 ** self.g.uniform(np.log10(scale_lo), np.log10(scale_hi))
            if D == 1:
                ev = np.array([s])
            else:
                ev = 10 ** self.g.uniform(-0.5 * np.log10(c), 0.5 * np.log10(c), size=D)
                ev[0] = c ** -0.5
                ev[1] = c ** 0.5
                ev = ev * s
            if diag:
                out[r] = np.diag(self.g.permutation(ev))
            else:
                q = self.orth(D)
                m = (q * ev[None, :]) @ q.T
                out[r] = 0.5 * (m + m.T)
        return out

    def idx_array(self, R, allow_repeats=True, allow_neg=True, maxlen=None):
        n = self.integers(1, maxlen or (R + 1))
        if allow_repeats:
            idx = [self.integers(0, R - 1) for _ in range(n)]
        else:
            idx = self.perm(R)[: min(n, R)]
        if allow_neg:
            idx = [i - R if self.coin(0.25) else i for i in idx]
        return idx


# ---------------------------------------------------------------------------------------
# JSON with exact float64 round trip


def to_jsonable(o):
    if isinstance(o, np.ndarray):
        kind = "i" if o.dtype.kind in "iu" else ("b" if o.dtype.kind == "b" else "f")
        return {"__nd__": o.tolist(), "k": kind, "shape": list(o.shape)}
    if isinstance(o, (np.floating,)):
        return float(o)
    if isinstance(o, (np.integer,)):
        return int(o)
    if isinstance(o, (np.bool_,)):
        return bool(o)
    if isinstance(o, dict):
        return {str(k): to_jsonable(v) for k, v in o.items()}
    if isinstance(o, (list, tuple)):
        return [to_jsonable(v) for v in o]
    if hasattr(o, "__array__"):
        return to_jsonable(np.asarray(o))
    return o


def from_jsonable(o):
    if isinstance(o, dict):
        if "__nd__" in o:
            dt = {"i": np.int64, "b": np.bool_, "f": np.float64}[o.get("k", "f")]
            return np.asarray(o["__nd__"], dtype=dt).reshape(o["shape"])
        return {k: from_jsonable(v) for k, v in o.items()}
    if isinstance(o, list):
        return [from_jsonable(v) for v in o]
    return o


def dumps(o, **kw):
    return json.dumps(to_jsonable(o), allow_nan=True, **kw)


def loads(s):
    return from_jsonable(json.loads(s))


def sha_bytes(*parts):
    h = hashlib.sha256()
    for p in parts:
        if isinstance(p, np.ndarray):
            h.update(str(p.dtype).encode())
            h.update(str(p.shape).encode())
            h.update(np.ascontiguousarray(p).tobytes())
        elif isinstance(p, bytes):
            h.update(p)
        else:
            h.update(str(p).encode())
    return h.hexdigest()[:16]
