"""Dense numpy reference: comparators and the step invariants I_coh, I_mass, I_imm.

Only numpy (solve / inv / slogdet / eigvalsh).  Nothing in here calls back into the generator,
so replay files can be judged without generator code.
"""
import numpy as np

from . import util

RTOL = 1e-8
LN2PI = float(np.log(2.0 * np.pi))
COND_MAX = 1e4


class Violation(Exception):
    def __init__(self, check, msg="", **detail):
        super().__init__(f"{check}: {msg}")
        self.check = check
        self.msg = msg
        self.detail = detail


class IllConditioned(Exception):
    """History left the conditioning envelope of the properties: truncate, never judge."""


def A(x):
    return None if x is None else np.asarray(x, dtype=np.float64)


def kind_of(obj):
    from gaussian_toolbox import conditional, factor, measure, pdf

    if isinstance(obj, pdf.GaussianPDF):
        return "pdf"
    if isinstance(obj, measure.GaussianMeasure):
        return "measure"
    if isinstance(obj, factor.ConjugateFactor):
        return "factor"
    if isinstance(obj, conditional.ConditionalGaussianPDF):
        return "cond"
    if type(obj).__name__ in ("TruncatedGaussianMeasure", "TruncatedGaussianPDF"):
        return "trunc"
    return "other"


MEASURE_ATTRS = ("Lambda", "nu", "ln_beta", "Sigma", "ln_det_Sigma", "ln_det_Lambda", "mu", "lnZ")
COND_ATTRS = ("M", "b", "Sigma", "Lambda", "ln_det_Sigma")
FACTOR_ATTRS = ("Lambda", "nu", "ln_beta", "v", "g")


def attrs_of(obj, kind=None):
    kind = kind or kind_of(obj)
    names = {"pdf": MEASURE_ATTRS, "measure": MEASURE_ATTRS, "factor": FACTOR_ATTRS, "cond": COND_ATTRS}.get(kind, ())
    out = {}
    for n in names:
        v = obj.__dict__.get(n, None) if hasattr(obj, "__dict__") else getattr(obj, n, None)
        out[n] = None if v is None else np.asarray(v)
    return out


def cache_mask(obj):
    """Which optional attributes are filled - the hidden state the schedules steer."""
    k = kind_of(obj)
    if k in ("measure", "pdf"):
        return "".join(
            c if obj.__dict__.get(n) is not None else "-"
            for n, c in (("Sigma", "S"), ("ln_det_Sigma", "s"), ("ln_det_Lambda", "l"), ("mu", "m"), ("lnZ", "Z"))
        )
    return ""


def clone(obj):
    """Same hidden state, independent attribute dict: queries on the clone do not warm obj."""
    new = object.__new__(type(obj))
    new.__dict__.update(obj.__dict__)
    return new


# ---------------------------------------------------------------------------------------
# comparators


def cmp_lin(check, got, ref, floor=1e-6, rtol=RTOL, **ctx):
    got, ref = A(got), A(ref)
    if got.shape != ref.shape:
        raise Violation(check, f"shape {got.shape} != {ref.shape}", observed_shape=list(got.shape), expected_shape=list(ref.shape), **ctx)
    if got.size == 0:
        return 0.0
    if not np.all(np.isfinite(got) == np.isfinite(ref)) or np.any(np.isnan(got) != np.isnan(ref)):
        raise Violation(check, "non-finite pattern differs", observed=got, expected=ref, **ctx)
    fin = np.isfinite(ref)
    if not fin.all():
        if np.any(got[~fin] != ref[~fin]) and not np.all(np.isnan(ref[~fin])):
            raise Violation(check, "infinite entries differ", observed=got, expected=ref, **ctx)
        if not fin.any():
            return 0.0
    scale = max(float(np.max(np.abs(ref[fin]))), float(floor))
    err = float(np.max(np.abs(got[fin] - ref[fin])))
    if err > rtol * scale:
        raise Violation(check, f"err {err:.3e} > {rtol:g}*{scale:.3e}", observed=got, expected=ref, err=err, scale=scale, **ctx)
    return err / scale


def cmp_log(check, got, ref, rtol=RTOL, **ctx):
    """Log-domain quantities: absolute against rtol*max(1,|ref|) element-wise."""
    got, ref = A(got), A(ref)
    if got.shape != ref.shape:
        raise Violation(check, f"shape {got.shape} != {ref.shape}", observed_shape=list(got.shape), expected_shape=list(ref.shape), **ctx)
    if got.size == 0:
        return 0.0
    bad = ~(np.isfinite(got) & np.isfinite(ref))
    if bad.any():
        if not np.array_equal(got[bad], ref[bad], equal_nan=True):
            raise Violation(check, "non-finite values", observed=got, expected=ref, **ctx)
    ok = ~bad
    if not ok.any():
        return 0.0
    tol = rtol * np.maximum(1.0, np.abs(ref[ok]))
    d = np.abs(got[ok] - ref[ok])
    if np.any(d > tol):
        raise Violation(check, f"err {float(d.max()):.3e}", observed=got, expected=ref, err=float(d.max()), **ctx)
    return float(np.max(d / tol)) * rtol


def cmp_bits(check, got, ref, **ctx):
    got, ref = np.asarray(got), np.asarray(ref)
    if got.shape != ref.shape or got.dtype != ref.dtype or got.tobytes() != ref.tobytes():
        raise Violation(check, "not bit-identical", observed=got, expected=ref, **ctx)


# ---------------------------------------------------------------------------------------
# envelope


def spectrum_ok(M, need_pd=True, name="matrix"):
    """condition number <= COND_MAX for every component.

    A legitimately ill-conditioned matrix is still finite, symmetric and (numerically) positive
    definite; a non-finite, asymmetric or clearly indefinite precision / covariance produced by legal
    operations on in-envelope inputs is a defect, not ill-conditioning, and is reported."""
    M = A(M)
    if M.ndim != 3 or M.shape[1] != M.shape[2]:
        return True
    if not np.all(np.isfinite(M)):
        raise Violation("I_env.nonfinite", f"{name} has non-finite entries")
    for m in M:
        scale = max(np.max(np.abs(m)), 1e-300)
        if np.max(np.abs(m - m.T)) > 1e-8 * scale:
            raise Violation("I_env.asymmetric", f"{name} is not symmetric (asymmetry {np.max(np.abs(m - m.T)):.3e}, scale {scale:.3e})")
        ev = np.linalg.eigvalsh(0.5 * (m + m.T))
        if need_pd:
            if ev[0] < -1e-10 * max(abs(ev[-1]), 1e-300):
                raise Violation("I_env.indefinite", f"{name} has a negative eigenvalue {ev[0]:.3e} (largest {ev[-1]:.3e})")
            if ev[0] <= 0 or ev[-1] / ev[0] > COND_MAX:
                return False
    return True


def envelope(obj, kind=None):
    kind = kind or kind_of(obj)
    if kind in ("measure", "pdf"):
        if not spectrum_ok(obj.Lambda, name="Lambda"):
            raise IllConditioned("Lambda")
        for n in ("nu", "ln_beta"):
            v = A(getattr(obj, n))
            if not np.all(np.isfinite(v)) or np.max(np.abs(v), initial=0) > 1e13:
                raise IllConditioned(n)
    elif kind == "cond":
        S = obj.__dict__.get("Sigma")
        if S is not None and not spectrum_ok(S, name="conditional Sigma"):
            raise IllConditioned("cond.Sigma")
        M = obj.__dict__.get("M")
        if M is not None and np.max(np.abs(A(M)), initial=0) > 1e3:
            raise IllConditioned("cond.M")


# ---------------------------------------------------------------------------------------
# numpy closed forms


def quad_ln(Lam, nu, lnb, X):
    """ln f_r(x_n) = -1/2 x'Lam_r x + x'nu_r + lnb_r, by explicit loops -> [R, N]."""
    Lam, nu, lnb, X = A(Lam), A(nu), A(lnb), A(X)
    R = max(Lam.shape[0], nu.shape[0], lnb.shape[0])
    out = np.empty((R, X.shape[0]))
    for r in range(R):
        L = Lam[r if Lam.shape[0] > 1 else 0]
        v = nu[r if nu.shape[0] > 1 else 0]
        c = lnb[r if lnb.shape[0] > 1 else 0]
        for n in range(X.shape[0]):
            x = X[n]
            out[r, n] = -0.5 * x @ L @ x + x @ v + c
    return out


def log_mass(Lam, nu, lnb):
    Lam, nu, lnb = A(Lam), A(nu), A(lnb)
    R, D = nu.shape
    out = np.empty(R)
    for r in range(R):
        L = Lam[r if Lam.shape[0] > 1 else 0]
        sgn, ld = np.linalg.slogdet(L)
        out[r] = 0.5 * (nu[r] @ np.linalg.solve(L, nu[r]) + D * LN2PI - ld) + lnb[r]
    return out


def normal_ln(mu, Sigma, X):
    mu, Sigma, X = A(mu), A(Sigma), A(X)
    R, D = mu.shape
    out = np.empty((R, X.shape[0]))
    for r in range(R):
        S = Sigma[r if Sigma.shape[0] > 1 else 0]
        sgn, ld = np.linalg.slogdet(S)
        Si = np.linalg.inv(S)
        for n in range(X.shape[0]):
            d = X[n] - mu[r]
            out[r, n] = -0.5 * d @ Si @ d - 0.5 * (D * LN2PI + ld)
    return out


def generic_points(obj_or_D, salt, extra=1, center=None, spread=None):
    """(D+1)(D+2)/2 + extra generic points: two quadratics agreeing on them are equal.

    Deterministic function of (D, salt) and of the centre / spread handed in."""
    if isinstance(obj_or_D, int):
        D = obj_or_D
    else:
        D = int(obj_or_D.D)
    n = (D + 1) * (D + 2) // 2 + extra
    g = util.rng_for(0xC0FFEE, "points", D, salt)
    X = g.normal(size=(n, D))
    if spread is not None:
        X = X * spread
    if center is not None:
        X = X + center
    return X


def points_for(obj, salt):
    """Points around the object's modes at a few standard deviations."""
    k = kind_of(obj)
    D = int(obj.D)
    center = np.zeros(D)
    spread = 1.0
    if k in ("measure", "pdf"):
        Lam, nu = A(obj.Lambda), A(obj.nu)
        try:
            mus = np.stack([np.linalg.solve(Lam[r if Lam.shape[0] > 1 else 0], nu[r]) for r in range(nu.shape[0])])
            center = mus.mean(axis=0)
            sd = np.sqrt(max(np.max([np.max(np.diag(np.linalg.inv(L))) for L in Lam]), 1e-12))
            spread = 2.0 * sd + np.max(np.abs(mus - center))
        except np.linalg.LinAlgError:
            pass
    return generic_points(D, salt, center=center, spread=spread)


# ---------------------------------------------------------------------------------------
# I_coh : attribute-only, never mutates the object


def I_coh(obj, where=""):
    k = kind_of(obj)
    I_leak(obj, where)
    n_checked = 0
    if k in ("measure", "pdf"):
        d = obj.__dict__
        Lam, nu, lnb = A(d["Lambda"]), A(d["nu"]), A(d["ln_beta"])
        R, D = nu.shape
        if Lam.shape != (R, D, D) or lnb.shape != (R,):
            raise Violation("I_coh.shape", f"Lambda {Lam.shape} nu {nu.shape} ln_beta {lnb.shape}", where=where)
        Sig, lds, ldl, mu, lnZ = (A(d.get(n)) for n in ("Sigma", "ln_det_Sigma", "ln_det_Lambda", "mu", "lnZ"))
        eye = np.broadcast_to(np.eye(D), (R, D, D))
        if Sig is not None:
            if Sig.shape != Lam.shape:
                raise Violation("I_coh.shape", f"Sigma {Sig.shape} vs Lambda {Lam.shape}", where=where)
            cmp_lin("I_coh.SigmaLambda", Sig @ Lam, eye, floor=1.0, where=where)
            cmp_lin("I_coh.Sigma_sym", Sig, np.swapaxes(Sig, 1, 2), where=where)
            n_checked += 2
        cmp_lin("I_coh.Lambda_sym", Lam, np.swapaxes(Lam, 1, 2), where=where)
        sl = np.linalg.slogdet(Lam)[1]
        if lds is not None:
            if lds.shape != (R,):
                raise Violation("I_coh.shape", f"ln_det_Sigma {lds.shape}", where=where)
            ref_lds = np.linalg.slogdet(Sig)[1] if Sig is not None else -sl
            cmp_log("I_coh.ln_det_Sigma", lds, ref_lds, where=where)
            cmp_log("I_coh.ln_det_Sigma_vs_Lambda", lds, -sl, where=where)
            n_checked += 2
        if ldl is not None:
            if ldl.shape != (R,):
                raise Violation("I_coh.shape", f"ln_det_Lambda {ldl.shape}", where=where)
            cmp_log("I_coh.ln_det_Lambda", ldl, sl, where=where)
            n_checked += 1
        if mu is not None:
            if mu.shape != (R, D):
                raise Violation("I_coh.shape", f"mu {mu.shape}", where=where)
            ref_mu = np.stack([np.linalg.solve(Lam[r], nu[r]) for r in range(R)])
            cmp_lin("I_coh.mu", mu, ref_mu, floor=1e-3, where=where)
            n_checked += 1
        if lnZ is not None:
            if lnZ.shape != (R,):
                raise Violation("I_coh.shape", f"lnZ {lnZ.shape}", where=where)
            cmp_log("I_coh.lnZ", lnZ, log_mass(Lam, nu, np.zeros(R)), where=where)
            n_checked += 1
    elif k == "cond":
        d = obj.__dict__
        Sig, Lam, lds = A(d.get("Sigma")), A(d.get("Lambda")), A(d.get("ln_det_Sigma"))
        if Sig is not None and Lam is not None:
            if Sig.shape != Lam.shape:
                raise Violation("I_coh.shape", f"cond Sigma {Sig.shape} vs Lambda {Lam.shape}", where=where)
            R, D = Sig.shape[0], Sig.shape[1]
            cmp_lin("I_coh.cond.SigmaLambda", Sig @ Lam, np.broadcast_to(np.eye(D), Sig.shape), floor=1.0, where=where)
            n_checked += 1
        if lds is not None and Sig is not None:
            cmp_log("I_coh.cond.ln_det_Sigma", lds, np.linalg.slogdet(Sig)[1], where=where)
            n_checked += 1
        M, b = A(d.get("M")), A(d.get("b"))
        if M is not None and b is not None and Sig is not None:
            if not (M.shape[0] == b.shape[0] == Sig.shape[0] and M.shape[1] == b.shape[1] == Sig.shape[1]):
                raise Violation("I_coh.shape", f"cond M {M.shape} b {b.shape} Sigma {Sig.shape}", where=where)
    return n_checked


# ---------------------------------------------------------------------------------------
# I_mass : query based, always on a clone


def I_mass(obj, salt, where="", presented_as_density=None):
    import jax.numpy as jnp

    k = kind_of(obj)
    if k not in ("measure", "pdf"):
        return 0
    X = points_for(obj, salt)
    Xj = jnp.asarray(X)
    Lam, nu, lnb = A(obj.Lambda), A(obj.nu), A(obj.ln_beta)
    n = 0
    # (i) which function is it
    ev = A(clone(obj).evaluate_ln(Xj))
    ref_ev = quad_ln(Lam, nu, lnb, X)
    cmp_log("I_mass.evaluate_ln", ev, ref_ev, where=where)
    e2 = A(clone(obj).evaluate(Xj))
    cmp_lin("I_mass.evaluate", e2, np.exp(ref_ev), floor=1e-300, where=where)
    n += 2
    # (ii) its integral
    lm = log_mass(Lam, nu, lnb)
    for name in ("log_integral", "log_integral_light"):
        cmp_log("I_mass." + name, A(getattr(clone(obj), name)()), lm, where=where)
    if np.all(np.abs(lm) < 600):
        for name in ("integral", "integral_light"):
            cmp_lin("I_mass." + name, A(getattr(clone(obj), name)()), np.exp(lm), floor=1e-300, where=where)
        cmp_lin("I_mass.integrate1", A(clone(obj).integrate("1")), np.exp(lm), floor=1e-300, where=where)
    n += 5
    # (ii') formula-free cross-check: quadrature of the function the object evaluates to (D <= 2)
    if int(obj.D) <= QUAD_MAX_D[0]:
        cmp_log("I_mass.quadrature", quad_log_mass(obj, Lam, nu), lm, rtol=1e-7, where=where)
        n += 1
    # (iii) densities
    is_density = k == "pdf" if presented_as_density is None else presented_as_density
    if is_density:
        cmp_log("I_mass.density_mass", lm, np.zeros_like(lm), where=where)
        mu, Sig = A(obj.__dict__.get("mu")), A(obj.__dict__.get("Sigma"))
        if mu is None or Sig is None:
            raise Violation("I_mass.density_attrs", "density without mu/Sigma", where=where)
        cmp_log("I_mass.density_normal", ev, normal_ln(mu, Sig, X), where=where)
        if not np.all(np.isfinite(ev)):
            raise Violation("I_mass.density_finite", "non-finite log density", where=where)
        n += 2
    # (iv) normalising
    dens = clone(obj).get_density()
    cmp_log("I_mass.get_density", A(dens.evaluate_ln(Xj)), ref_ev - lm[:, None], where=where)
    c = clone(obj)
    c.normalize()
    cmp_log("I_mass.normalize", A(c.evaluate_ln(Xj)), ref_ev - lm[:, None], where=where)
    cmp_log("I_mass.normalize_mass", A(c.log_integral()), np.zeros_like(lm), where=where)
    n += 3
    return n


QUAD_MAX_D = [1]  # quick tier: D == 1; the thorough tier raises it to 2


def quad_log_mass(obj, Lam, nu):
    """log of the integral of exp(evaluate_ln) by the trapezoidal rule on a grid centred at each
    component's mode and scaled by its Cholesky factor (spectrally accurate for Gaussians).
    Only the *placement* of the grid uses the parameters; the integrand is the library's evaluate_ln."""
    import jax.numpy as jnp

    R, D = nu.shape
    if D == 1:
        z = np.linspace(-12.0, 12.0, 481)[:, None]
    else:
        g = np.linspace(-9.0, 9.0, 121)
        z = np.stack(np.meshgrid(g, g, indexing="ij"), axis=-1).reshape(-1, 2)
    h = (z[1, -1] - z[0, -1]) if D == 1 else (g[1] - g[0])
    out = np.empty(R)
    for r in range(R):
        S = np.linalg.inv(Lam[r])
        L = np.linalg.cholesky(0.5 * (S + S.T))
        mu = S @ nu[r]
        X = mu[None] + z @ L.T
        v = A(clone(obj).evaluate_ln(jnp.asarray(X)))[r]
        m = np.max(v)
        out[r] = m + np.log(np.sum(np.exp(v - m))) + D * np.log(h) + np.sum(np.log(np.diag(L)))
    return out


# ---------------------------------------------------------------------------------------
# I_imm : operands untouched


def I_leak(obj, where=""):
    """No attribute of an eagerly used object may hold a leaked JAX tracer (state written by a
    traced query must not survive the trace)."""
    import jax

    for n, v in getattr(obj, "__dict__", {}).items():
        if isinstance(v, jax.core.Tracer):
            raise Violation("I_leak.tracer", f"attribute {n} of {type(obj).__name__} holds a leaked tracer", where=where, attr=n)
    return 1


def snapshot(obj):
    I_leak(obj)
    return {n: (None if v is None else (np.array(v), v.dtype if hasattr(v, "dtype") else None))
            for n, v in obj.__dict__.items()
            if v is None or hasattr(v, "shape")}


# attributes that define the function an object evaluates to: bit-identical for untouched operands;
# derived caches (covariance, log-determinants, mean, log-partition) may be legitimately recomputed and
# are held to the properties' equality (rounding)
DEFINING = ("Lambda", "nu", "ln_beta", "M", "b", "v", "g")


def I_imm(obj, snap, where="", bitwise=True):
    """Attributes that were set before are unchanged (bit-for-bit for operands of constructive
    operations; to rounding after explicit cache-recomputing queries)."""
    for n, sv in snap.items():
        cur = obj.__dict__.get(n)
        if sv is None:
            continue  # None -> value is a legal cache fill; coherence judged by I_coh
        if cur is None:
            raise Violation("I_imm.dropped", f"attribute {n} was reset to None", where=where, attr=n)
        if bitwise and n in DEFINING:
            cmp_bits("I_imm." + n, np.asarray(cur), sv[0], where=where, attr=n)
        elif n in ("ln_det_Sigma", "ln_det_Lambda", "lnZ", "ln_beta"):
            cmp_log("I_imm." + n, np.asarray(cur), sv[0], where=where, attr=n)
        else:
            cmp_lin("I_imm." + n, np.asarray(cur), sv[0], floor=1e-3, where=where, attr=n)
    return len(snap)
