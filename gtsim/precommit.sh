#!/bin/sh
# run every registered quick check against the current /repo tree without touching the registered evidence
cd "$(dirname "$0")/.." || exit 2
rc=0
for p in C01 C02 C04 C11 C12 C15 C18 C19; do
  out=$(GTSIM_EVIDENCE_DIR=/tmp/ev_pre GTSIM_REPLAY_DIR=/tmp/rp_pre ./check $p --tier quick ${1:+--seed $1} 2>&1)
  st=$?
  echo "$p exit=$st $(echo "$out" | tail -1)"
  [ $st -ne 0 ] && { echo "$out" | grep -A3 "^VIOLATION\|HARNESS" | head -20; rc=1; }
done
exit $rc
