"""World (slots, outputs, event log), the operation model and the executors.

A *record* is a plain dict with literal arguments; executing a list of records is a pure
function of the records (and of the library under test).  Generators (gen_*) draw from an
Rng and return a record; executors (run_*) never draw.
"""
from collections import Counter

import numpy as np

from . import ref, util
from .ref import A, Violation, IllConditioned

_L = {}


def lib():
    if not _L:
        import jax
        import jax.numpy as jnp
        from gaussian_toolbox import approximate_conditional, conditional, factor, measure, pdf
        from gaussian_toolbox.experimental import truncated_measure

        _L.update(
            jax=jax,
            jnp=jnp,
            factor=factor,
            measure=measure,
            pdf=pdf,
            conditional=conditional,
            approx=approximate_conditional,
            trunc=truncated_measure,
            CLS={
                "ConjugateFactor": factor.ConjugateFactor,
                "OneRankFactor": factor.OneRankFactor,
                "LinearFactor": factor.LinearFactor,
                "ConstantFactor": factor.ConstantFactor,
                "GaussianMeasure": measure.GaussianMeasure,
                "GaussianDiagMeasure": measure.GaussianDiagMeasure,
                "GaussianPDF": pdf.GaussianPDF,
                "GaussianDiagPDF": pdf.GaussianDiagPDF,
                "ConditionalGaussianPDF": conditional.ConditionalGaussianPDF,
                "ConditionalGaussianDiagPDF": conditional.ConditionalGaussianDiagPDF,
                "ConditionalIdentityGaussianPDF": conditional.ConditionalIdentityGaussianPDF,
                "ConditionalIdentityDiagGaussianPDF": conditional.ConditionalIdentityDiagGaussianPDF,
                "NNControlGaussianConditional": conditional.NNControlGaussianConditional,
                "LRBFGaussianConditional": approximate_conditional.LRBFGaussianConditional,
                "LSEMGaussianConditional": approximate_conditional.LSEMGaussianConditional,
                "HeteroscedasticExpConditional": approximate_conditional.HeteroscedasticExpConditional,
                "HeteroscedasticCoshM1Conditional": approximate_conditional.HeteroscedasticCoshM1Conditional,
                "HeteroscedasticHeavisideConditional": approximate_conditional.HeteroscedasticHeavisideConditional,
                "HeteroscedasticReLUConditional": approximate_conditional.HeteroscedasticReLUConditional,
            },
        )
    return _L


KIND = {
    "ConjugateFactor": "factor", "OneRankFactor": "factor", "LinearFactor": "factor", "ConstantFactor": "factor",
    "GaussianMeasure": "measure", "GaussianDiagMeasure": "measure",
    "GaussianPDF": "pdf", "GaussianDiagPDF": "pdf",
    "ConditionalGaussianPDF": "cond", "ConditionalGaussianDiagPDF": "cond",
    "ConditionalIdentityGaussianPDF": "cond", "ConditionalIdentityDiagGaussianPDF": "cond",
    "NNControlGaussianConditional": "cond",
    "LRBFGaussianConditional": "cond", "LSEMGaussianConditional": "cond",
    "HeteroscedasticExpConditional": "cond", "HeteroscedasticCoshM1Conditional": "cond",
    "HeteroscedasticHeavisideConditional": "cond", "HeteroscedasticReLUConditional": "cond",
}
FEATURE = ("LRBFGaussianConditional", "LSEMGaussianConditional")
HETERO = ("HeteroscedasticExpConditional", "HeteroscedasticCoshM1Conditional", "HeteroscedasticHeavisideConditional",
          "HeteroscedasticReLUConditional")
APPROX = FEATURE + HETERO
IDENT = ("ConditionalIdentityGaussianPDF", "ConditionalIdentityDiagGaussianPDF")


class Slot:
    __slots__ = ("id", "obj", "kind", "born", "by", "tainted", "role", "cmap", "u")

    def __init__(self, id, obj, kind, born, by):
        self.id, self.obj, self.kind, self.born, self.by = id, obj, kind, born, by
        self.tainted = False
        self.role = None
        self.cmap = None
        self.u = None  # fixed control input of an NN-controlled conditional

    @property
    def cls(self):
        return type(self.obj).__name__

    @property
    def R(self):
        if self.u is not None:
            return int(np.shape(self.u)[0])
        return int(self.obj.R)

    @property
    def D(self):
        return int(self.obj.D)


class World:
    """One execution of one workload under one fault schedule."""

    def __init__(self, salt=0, invariants=("coh", "imm"), findings=None, traced=None):
        self.slots = {}
        self.outputs = {}  # (step, name) -> np.ndarray   (or tracer in traced mode)
        self.log = []
        self.stats = Counter()
        self.step = -1
        self.salt = salt
        self.invariants = set(invariants)
        self.findings = findings
        self.traced = traced  # None, or dict name->tracer for float inputs
        self.known = []  # known findings confirmed in this run
        self.reach = Counter()
        self.state_sigs = set()
        self.interleavings = set()
        self.last_fault = {}

    # -- data access (tracer aware) ------------------------------------------------------
    def f(self, rec, key):
        """Float array argument of a record as a jnp array (or the tracer standing for it)."""
        v = rec[key] if not isinstance(key, tuple) else rec[key[0]][key[1]]
        if v is None:
            return None
        if self.traced is not None:
            name = f"{rec['_i']}.{key if not isinstance(key, tuple) else '.'.join(key)}"
            if name in self.traced:
                return self.traced[name]
        return lib()["jnp"].asarray(v)

    def obj(self, sid):
        return self.slots[sid].obj

    def put(self, rec, obj, key="out"):
        sid = rec[key]
        s = Slot(sid, obj, ref.kind_of(obj), self.step, rec["op"])
        self.slots[sid] = s
        return s

    def out(self, rec, name, value):
        k = (rec["_i"], name)
        if self.traced is not None:
            self.outputs[k] = value
        else:
            self.outputs[k] = np.asarray(value)

    def live(self, kinds=None, pred=None):
        out = []
        for s in self.slots.values():
            if s.tainted:
                continue
            if kinds and s.kind not in kinds:
                continue
            if pred and not pred(s):
                continue
            out.append(s)
        return out

    def digest(self):
        return util.sha_bytes(*[repr(e) for e in self.log])


# ---------------------------------------------------------------------------------------
# root generation


def _mean_scale(rng, shape):
    return rng.normal(shape, 1.2)


def gen_root(rng, cls, R, D, Dx=None, variant=None, cond_max=1e2, scale=1.0):
    """Constructor kwargs (numpy) for a root of class `cls` in one documented argument combination."""
    kw = {}
    if cls == "ConjugateFactor":
        variant = variant or rng.choice(["spd", "spd", "singular", "zero", "defaults"])
        if variant == "zero":
            Lam = np.zeros((R, D, D))
        elif variant == "singular" and D > 1:
            k = rng.integers(1, D - 1)
            B = rng.normal((R, D, k), 0.8)
            Lam = B @ np.swapaxes(B, 1, 2)
        else:
            Lam = rng.spd(R, D, cond_max)
        kw["Lambda"] = Lam
        if variant != "defaults" or rng.coin():
            kw["nu"] = rng.normal((R, D))
        if variant != "defaults":
            kw["ln_beta"] = rng.normal((R,))
    elif cls == "OneRankFactor":
        kw["v"] = rng.normal((R, D))
        if rng.coin(0.8):
            kw["g"] = rng.uniform(0.1, 2.5, (R,))
        if rng.coin(0.8):
            kw["nu"] = rng.normal((R, D))
        if rng.coin(0.8):
            kw["ln_beta"] = rng.normal((R,))
    elif cls == "LinearFactor":
        kw["nu"] = rng.normal((R, D))
        if rng.coin(0.8):
            kw["ln_beta"] = rng.normal((R,))
    elif cls == "ConstantFactor":
        kw["ln_beta"] = rng.normal((R,))
        kw["num_dim"] = int(D)
    elif cls in ("GaussianMeasure", "GaussianDiagMeasure"):
        diag = cls == "GaussianDiagMeasure"
        Lam = rng.spd(R, D, cond_max, diag=diag)
        m = _mean_scale(rng, (R, D))
        kw["Lambda"] = Lam
        variant = variant or rng.choice(["lam", "lam", "lam_nu_beta", "full"])
        if variant != "lam" or rng.coin(0.7):
            kw["nu"] = np.einsum("rij,rj->ri", Lam, m)
        if variant != "lam" or rng.coin(0.7):
            kw["ln_beta"] = rng.normal((R,))
        if variant == "full":
            kw["Sigma"] = np.linalg.inv(Lam)
            kw["ln_det_Lambda"] = np.linalg.slogdet(Lam)[1]
            kw["ln_det_Sigma"] = -kw["ln_det_Lambda"]
    elif cls in ("GaussianPDF", "GaussianDiagPDF"):
        diag = cls == "GaussianDiagPDF"
        Sig = rng.spd(R, D, cond_max, diag=diag) * scale
        kw["Sigma"] = Sig
        # means are kept within a few standard deviations of the origin: the information form
        # -x'Lx/2 + x'nu + ln_beta cancels catastrophically otherwise (a floating-point limit, not a defect)
        kw["mu"] = _mean_scale(rng, (R, D)) * np.sqrt(scale)
        variant = variant or rng.choice(["sigma", "sigma", "sigma_lambda", "all"])
        if variant in ("sigma_lambda", "all"):
            kw["Lambda"] = np.linalg.inv(Sig)
        if variant == "all":
            kw["ln_det_Sigma"] = np.linalg.slogdet(Sig)[1]
    elif cls in ("ConditionalGaussianPDF", "ConditionalGaussianDiagPDF"):
        Dy = D
        diag = cls == "ConditionalGaussianDiagPDF"
        Sig = rng.spd(R, Dy, cond_max, diag=diag)
        kw["M"] = rng.normal((R, Dy, Dx), 0.7)
        if rng.coin(0.8):
            kw["b"] = rng.normal((R, Dy))
        variant = variant or rng.choice(["sigma", "lambda", "sigma_lambda", "all"])
        if variant in ("sigma", "all", "sigma_lambda"):
            kw["Sigma"] = Sig
        if variant in ("lambda", "all", "sigma_lambda"):
            kw["Lambda"] = np.linalg.inv(Sig)
        if variant == "all":
            kw["ln_det_Sigma"] = np.linalg.slogdet(Sig)[1]
    elif cls in IDENT:
        diag = cls == "ConditionalIdentityDiagGaussianPDF"
        Sig = rng.spd(R, D, cond_max, diag=diag)
        variant = variant or rng.choice(["sigma", "lambda", "sigma_lambda", "all"])
        if variant in ("sigma", "all", "sigma_lambda"):
            kw["Sigma"] = Sig
        if variant in ("lambda", "all", "sigma_lambda"):
            kw["Lambda"] = np.linalg.inv(Sig)
        if variant == "all":
            kw["ln_det_Sigma"] = np.linalg.slogdet(Sig)[1]
    elif cls in FEATURE:
        Dy = D
        Dk = rng.integers(1, 3)
        kw["M"] = rng.normal((1, Dy, Dk + Dx), 0.7)
        kw["b"] = rng.normal((1, Dy), 0.7)
        if cls == "LRBFGaussianConditional":
            kw["mu"] = rng.normal((Dk, Dx), 1.0)
            kw["length_scale"] = rng.uniform(0.6, 2.0, (Dk, Dx))
        else:
            kw["W"] = rng.normal((Dk, Dx + 1), 0.7)
        variant = variant or rng.choice(["sigma", "lambda"])
        Sig = rng.spd(1, Dy, cond_max)
        if variant == "sigma":
            kw["Sigma"] = Sig
        else:
            kw["Lambda"] = np.linalg.inv(Sig)
    elif cls in HETERO:
        Dy = D
        Da = Dy + (rng.integers(0, 2) if variant != "square" else 0)
        Dk = rng.integers(1, Da)
        Am = np.zeros((1, Dy, Da))
        # well conditioned A A' : orthonormal rows times moderate scales, extra columns random
        Am[0] = (rng.orth(Da)[:Dy] * rng.uniform(0.5, 1.5, (1, Da)))
        kw["M"] = rng.normal((1, Dy, Dx), 0.7)
        kw["b"] = rng.normal((1, Dy), 0.7)
        kw["A"] = Am
        kw["W"] = rng.normal((Dk, Dx + 1), 0.5)
        variant = "Da=Dy" if Da == Dy else "Da>Dy"
    else:
        raise KeyError(cls)
    return kw, variant


def build(cls, kw, w=None, rec=None):
    L = lib()
    jnp = L["jnp"]
    args = {}
    if cls == "NNControlGaussianConditional":
        # the control network's parameters are concrete constants of the control function (as for a user's
        # trained network): never tracers, or the function object itself could not cross a jit boundary
        with L["jax"].ensure_compile_time_eval():
            W = jnp.asarray(np.asarray(kw["W"], dtype=np.float64))
            c = jnp.asarray(np.asarray(kw["c"], dtype=np.float64))
        Sig = w.f(rec, ("kw", "Sigma")) if w is not None else jnp.asarray(kw["Sigma"])
        return L["CLS"][cls](Sigma=Sig, num_cond_dim=int(kw["num_cond_dim"]), num_control_dim=int(kw["num_control_dim"]),
                             control_func=lambda u: jnp.tanh(u @ W + c))
    for k, v in kw.items():
        if k == "num_dim":
            args[k] = int(v)
        elif v is None:
            args[k] = None
        elif w is not None and rec is not None:
            args[k] = w.f(rec, ("kw", k))
        else:
            args[k] = jnp.asarray(v)
    return L["CLS"][cls](**args)


# ---------------------------------------------------------------------------------------
# executors


_TRACING = [False]


def _idx(rec, key="idx"):
    """Index arrays are static data: a jnp array in eager mode (as in the documentation), a concrete
    numpy array inside a trace (jnp.asarray inside jit would stage it into a tracer)."""
    a = np.asarray(rec[key], dtype=np.int64)
    return a if _TRACING[0] else lib()["jnp"].asarray(a)


def run_root(w, rec):
    s = w.put(rec, build(rec["cls"], rec["kw"], w, rec))
    if rec["cls"] == "NNControlGaussianConditional":
        s.u = w.f(rec, "u")
    return [s]


def _ukw(w, sid):
    s = w.slots[sid]
    return {"u": s.u} if s.u is not None and type(s.obj).__name__ == "NNControlGaussianConditional" else {}


def run_slice(w, rec):
    return [w.put(rec, w.obj(rec["a"]).slice(_idx(rec)))]


def run_multiply(w, rec):
    u, f = w.obj(rec["a"]), w.obj(rec["f"])
    how = rec.get("how", "multiply")
    if how == "star":
        r = u * f
    elif how == "hadamard":
        r = u.hadamard(f, update_full=bool(rec["uf"]))
    else:
        r = u.multiply(f, update_full=bool(rec["uf"]))
    return [w.put(rec, r)]


def run_product(w, rec):
    return [w.put(rec, w.obj(rec["a"]).product())]


def run_get_density(w, rec):
    return [w.put(rec, w.obj(rec["a"]).get_density())]


def run_normalize(w, rec):
    w.obj(rec["a"]).normalize()
    return [w.slots[rec["a"]]]


def run_marginal(w, rec):
    return [w.put(rec, w.obj(rec["a"]).get_marginal(_idx(rec, "dims")))]


def run_linear_sum(w, rec):
    p = w.obj(rec["a"])
    b = w.f(rec, "b") if rec.get("b") is not None else None
    return [w.put(rec, p.get_density_of_linear_sum(w.f(rec, "W"), b))]


def run_condition_on(w, rec):
    p = w.obj(rec["a"])
    if rec.get("dims_x") is not None:
        c = p.condition_on_explicit(_idx(rec, "dims"), _idx(rec, "dims_x"))
    else:
        c = p.condition_on(_idx(rec, "dims"))
    return [w.put(rec, c)]


def run_cond_x(w, rec):
    c = w.obj(rec["a"])
    x = w.f(rec, "x")
    ukw = _ukw(w, rec["a"])
    if ukw:
        r = c(x, ukw["u"]) if rec.get("call") else c.condition_on_x_u(x, ukw["u"])
    else:
        r = c(x) if rec.get("call") else c.condition_on_x(x)
    return [w.put(rec, r)]


def run_set_y(w, rec):
    return [w.put(rec, w.obj(rec["a"]).set_y(w.f(rec, "y"), **_ukw(w, rec["a"])))]


def run_affine(w, rec):
    c, p = w.obj(rec["a"]), w.obj(rec["p"])
    fn = {"joint": c.affine_joint_transformation, "marginal": c.affine_marginal_transformation,
          "conditional": c.affine_conditional_transformation}[rec["which"]]
    return [w.put(rec, fn(p, **_ukw(w, rec["a"])))]


def run_truncate(w, rec):
    T = lib()["trunc"]
    m = w.obj(rec["a"])
    kw = {"measure": m}
    if rec.get("lower") is not None:
        kw["lower_limit"] = w.f(rec, "lower")
    if rec.get("upper") is not None:
        kw["upper_limit"] = w.f(rec, "upper")
    cls = T.TruncatedGaussianPDF if rec.get("pdf") else T.TruncatedGaussianMeasure
    return [w.put(rec, cls(**kw))]


def run_copy(w, rec):
    """Python-level duplication through the library's __getstate__/__setstate__ (copy, deepcopy, pickle).
    Not promised by any property by itself (a failure to copy is skipped), but the duplicate must be a
    coherent, independent object: it joins the pool and every invariant applies to it."""
    import copy
    import pickle

    o = w.obj(rec["a"])
    try:
        if rec["how"] == "copy":
            new = copy.copy(o)
        elif rec["how"] == "deepcopy":
            new = copy.deepcopy(o)
        else:
            new = pickle.loads(pickle.dumps(o))
    except Exception:
        w.stats["copy_unsupported"] += 1
        raise IllConditioned("copy unsupported")
    s = w.put(rec, new)
    s.u = w.slots[rec["a"]].u
    return [s]


def _fresh_with(obj, field, value):
    """The object the public constructor builds from obj's defining parameters with one of them changed."""
    L = lib()
    cls = type(obj)
    name = cls.__name__
    k = ref.kind_of(obj)
    g = lambda n: value if n == field else getattr(obj, n)
    if k == "pdf":
        return cls(Sigma=g("Sigma"), mu=g("mu"))
    if k == "measure":
        return cls(Lambda=g("Lambda"), nu=g("nu"), ln_beta=g("ln_beta"))
    if name == "ConjugateFactor":
        return cls(Lambda=g("Lambda"), nu=g("nu"), ln_beta=g("ln_beta"))
    if name == "OneRankFactor":
        return cls(v=g("v"), g=g("g"), nu=g("nu"), ln_beta=g("ln_beta"))
    if name == "LinearFactor":
        return cls(nu=g("nu"), ln_beta=g("ln_beta"))
    if name == "ConstantFactor":
        return cls(ln_beta=g("ln_beta"), num_dim=int(obj.D))
    if name in ("ConditionalGaussianPDF", "ConditionalGaussianDiagPDF"):
        return cls(M=g("M"), b=g("b"), Sigma=g("Sigma"))
    if name in HETERO:
        return cls(M=g("M"), b=g("b"), A=g("A"), W=g("W"))
    if name == "LRBFGaussianConditional":
        return cls(M=g("M"), b=g("b"), mu=g("mu"), length_scale=g("length_scale"), Sigma=g("Sigma"))
    return None


def run_replace(w, rec):
    """obj.replace(field=value) (dataclass-style functional update, public on every library class) must equal
    the object constructed from scratch with that parameter: derived quantities are recomputed, never carried."""
    from . import perturb

    o = w.obj(rec["a"])
    val = w.f(rec, "value")
    new = o.replace(**{rec["field"]: val})
    s = w.put(rec, new)
    if w.traced is None:
        fresh = _fresh_with(o, rec["field"], val)
        if fresh is not None:
            where = f"step {rec['_i']} replace({rec['field']})"
            perturb.same_function("I_replace", new, fresh, (w.salt, rec["_i"]), where)
            an, af = ref.attrs_of(new), ref.attrs_of(fresh)
            for n in an:
                if an[n] is None or af.get(n) is None:
                    continue
                if n in ("ln_det_Sigma", "ln_det_Lambda", "lnZ", "ln_beta"):
                    ref.cmp_log("I_replace." + n, an[n], af[n], where=where)
                else:
                    ref.cmp_lin("I_replace." + n, an[n], af[n], floor=1e-6, where=where)
            if type(o).__name__ in HETERO:
                jnp = lib()["jnp"]
                x = jnp.asarray(ref.generic_points(int(o.Dx), ("repl", w.salt, rec["_i"]))[:2])
                a1, a2 = new.get_conditional_cov(x), fresh.get_conditional_cov(x)
                ref.cmp_lin("I_replace.conditional_cov", A(a1), A(a2), where=where)
            w.stats["chk.I_replace"] += 1
    return [s]


def run_update(w, rec):
    w.obj(rec["a"]).update(_idx(rec), w.obj(rec["d"]))
    return [w.slots[rec["a"]]]


def run_update_sigma(w, rec):
    o = w.obj(rec["a"])
    S = w.f(rec, "Sigma")
    if int(S.shape[0]) == 1 and int(o.Sigma.shape[0]) > 1:
        # the record addresses an NN-controlled conditional (one shared covariance); its general-class
        # twin set_control_variable(u) carries one copy per control input
        S = lib()["jnp"].tile(S, (int(o.Sigma.shape[0]), 1, 1))
    o.update_Sigma(S)
    return [w.slots[rec["a"]]]


# observers ---------------------------------------------------------------------------


def _coef(w, rec):
    return {k: w.f(rec, ("kw", k)) for k in rec.get("kw", {})}


def run_obs(w, rec):
    o = w.obj(rec["a"])
    name = rec["name"]
    jnp = lib()["jnp"]
    if name == "evaluate_ln":
        v = o.evaluate_ln(w.f(rec, "x"), element_wise=bool(rec.get("ew", False)))
    elif name == "evaluate":
        v = o.evaluate(w.f(rec, "x"), element_wise=bool(rec.get("ew", False)))
    elif name == "call":
        v = o(w.f(rec, "x"), element_wise=bool(rec.get("ew", False)))
    elif name == "integrate":
        v = o.integrate(rec["key"], **_coef(w, rec))
    elif name == "integrate_log":
        v = o.integrate("log u(x)", factor=w.obj(rec["f"]))
    elif name in ("log_integral", "log_integral_light", "integral", "integral_light", "is_normalized", "entropy"):
        v = getattr(o, name)()
    elif name == "kl":
        v = o.kl_divergence(w.obj(rec["q"]))
    elif name == "attrs":
        for n, val in ref.attrs_of(o).items() if w.traced is None else _attrs_traced(o).items():
            if val is not None:
                w.out(rec, "attr." + n, val)
        return []
    elif name == "get_conditional_mu":
        v = o.get_conditional_mu(w.f(rec, "x"), **_ukw(w, rec["a"]))
    elif name in ("conditional_entropy", "mutual_information"):
        v = getattr(o, name)(w.obj(rec["p"]), **_ukw(w, rec["a"]))
    elif name == "integrate_log_conditional":
        v = o.integrate_log_conditional(w.obj(rec["p"]), **_ukw(w, rec["a"]))
    elif name == "integrate_log_conditional_y":
        if rec.get("callable"):
            v = o.integrate_log_conditional_y(w.obj(rec["p"]), **_ukw(w, rec["a"]))(w.f(rec, "y"))
        else:
            v = o.integrate_log_conditional_y(w.obj(rec["p"]), y=w.f(rec, "y"), **_ukw(w, rec["a"]))
    elif name == "trunc_call":
        v = o(w.f(rec, "x"), element_wise=bool(rec.get("ew", False)))
    elif name == "trunc_integrate":
        v = o.integrate(rec["key"], **({"k": int(rec["k"])} if rec["key"] == "x**k" else {}))
    elif name == "trunc_density_call":
        v = o.get_density()(w.f(rec, "x"))
    elif name == "sample":
        jax = lib()["jax"]
        key = jnp.asarray(np.asarray(rec["key"], dtype=np.uint32))
        n = int(rec["n"])
        if rec.get("jit"):
            v = jax.jit(lambda k: o.sample(k, n))(key)
        else:
            v = o.sample(key, n)
    elif name == "to_dict":
        d = o.to_dict()
        for n in sorted(d):
            if d[n] is not None and hasattr(d[n], "shape"):
                w.out(rec, "dict." + n, d[n])
        return []
    else:
        raise KeyError(name)
    w.out(rec, name, v)
    return []


def _attrs_traced(o):
    names = ref.MEASURE_ATTRS if ref.kind_of(o) in ("measure", "pdf") else (ref.COND_ATTRS if ref.kind_of(o) == "cond" else ref.FACTOR_ATTRS)
    return {n: o.__dict__.get(n) for n in names}


RUN = {
    "root": run_root, "slice": run_slice, "multiply": run_multiply, "product": run_product,
    "get_density": run_get_density, "normalize": run_normalize, "marginal": run_marginal,
    "linear_sum": run_linear_sum, "condition_on": run_condition_on, "cond_x": run_cond_x,
    "set_y": run_set_y, "affine": run_affine, "update": run_update, "update_sigma": run_update_sigma,
    "obs": run_obs, "truncate": run_truncate, "copy": run_copy, "replace": run_replace,
}
MUTATORS = {"normalize", "update", "update_sigma"}
OPERAND_KEYS = ("a", "f", "p", "d", "q")


def operands(rec):
    return [rec[k] for k in OPERAND_KEYS if k in rec and isinstance(rec[k], (int, np.integer))]


# ---------------------------------------------------------------------------------------
# step execution with invariants


def describe(s):
    o = s.obj
    if s.kind == "cond":
        shp = f"R{s.R}Dy{int(o.Dy)}Dx{int(o.Dx)}"
    else:
        shp = f"R{int(o.R)}D{int(o.D)}"
    return f"{s.cls}:{shp}:{ref.cache_mask(o)}"


def ctx_of(w, rec, before=None):
    """Configuration of a step, for known-finding predicates and evidence."""
    c = {"op": rec["op"], "how": rec.get("how"), "which": rec.get("which"), "name": rec.get("name"),
         "uf": bool(rec.get("uf", False)), "key": rec.get("key")}
    for k in ("a", "f", "p", "d", "q"):
        sid = rec.get(k)
        if isinstance(sid, (int, np.integer)) and sid in w.slots:
            s = w.slots[sid]
            o = s.obj
            c["cls_" + k] = s.cls
            c["kind_" + k] = s.kind
            try:
                c["R_" + k] = s.R
                if s.kind == "cond":
                    c["Dx_" + k], c["Dy_" + k] = int(o.Dx), int(o.Dy)
                else:
                    c["D_" + k] = int(o.D)
            except Exception:
                pass
            if before and sid in before:
                c["mask_" + k] = before[sid].split(":")[2]
            if s.cls in HETERO:
                c["Da_" + k], c["Dk_" + k] = int(o.Da), int(o.Dk)
    c["_rec"] = rec
    for k in ("x", "y"):
        if rec.get(k) is not None:
            c["N"] = int(np.shape(rec[k])[0])
    return c


def exec_step(w, rec, i):
    """Execute one record.  Raises Violation / IllConditioned.  Returns touched slots."""
    rec["_i"] = i
    w.step = i
    ops = operands(rec)
    check = w.traced is None
    _TRACING[0] = not check
    before = {}
    snaps = {}
    if check:
        for sid in ops:
            s = w.slots[sid]
            before[sid] = describe(s)
            if "imm" in w.invariants and not (rec["op"] in MUTATORS and sid == rec["a"]):
                snaps[sid] = ref.snapshot(s.obj)
        if "imm" in w.invariants and rec["op"] in MUTATORS:
            # an in-place update may change its target only: every other live object (earlier-derived
            # objects, operands of earlier operations) must stay bit-identical - detects aliasing
            for sid, s in w.slots.items():
                if sid != rec["a"] and sid not in snaps and not s.tainted and s.kind != "trunc":
                    snaps[sid] = ref.snapshot(s.obj)
        ctx = ctx_of(w, rec, before)
        prod_pre = _prod_pre(w, rec, i) if "prod" in w.invariants and rec["op"] in ("multiply", "product") else None
    try:
        touched = RUN[rec["op"]](w, rec)
    except (Violation, IllConditioned):
        raise
    except Exception as e:  # the model only issues legal calls: a raise is a violation
        if not check:
            raise
        v = Violation("raise." + rec["op"] + ("." + str(rec.get("name") or rec.get("which") or rec.get("how") or "")),
                      f"{type(e).__name__}: {str(e)[:300]}", step=i, exc=type(e).__name__)
        if w.findings is not None and w.findings.match(w, ctx, v):
            w.stats["known_finding_hits"] += 1
            raise KnownFindingStop(v)
        raise v
    if not check:
        return touched
    w.stats["op." + rec["op"] + ("." + rec["name"] if rec["op"] == "obs" else "")] += 1
    _reach(w, rec, before)
    where = f"step {i} {rec['op']}"

    def guarded(fn, slots_to_taint):
        try:
            return fn()
        except Violation as v:
            v.detail.setdefault("step", i)
            if w.findings is not None and w.findings.match(w, ctx, v):
                w.stats["known_finding_hits"] += 1
                for t in slots_to_taint:
                    t.tainted = True
                return 0
            raise

    if "samp" in w.invariants and rec["op"] == "obs" and rec.get("name") == "sample":
        w.stats["chk.I_samp"] += guarded(lambda: _sample_check(w, rec, i, where), [])
    if prod_pre is not None:
        # the product oracle knows the exact expectation: judge before the envelope may discard
        w.stats["chk.I_prod"] += guarded(lambda: _prod_post(w, rec, prod_pre, touched[0], where), touched)
    for s in touched:
        if rec["op"] == "affine" and w.slots[rec["a"]].cls in APPROX:
            # moment-matched results: covariance = E[yy'] - mu mu' can lose definiteness by cancellation for
            # extreme inputs; such results are outside the envelope (discarded), not judged
            try:
                ref.envelope(s.obj, s.kind)
            except Violation as v:
                if v.check.startswith("I_env."):
                    raise IllConditioned(v.check)
                raise
        else:
            guarded(lambda: ref.envelope(s.obj, s.kind), [s])

    if rec.get("repeat") and touched and "coh" in w.invariants:
        w.stats["chk.I_repeat"] += guarded(lambda: _repeat_check(w, rec, touched[0], where), touched)
    for sid, sn in snaps.items():
        w.stats["chk.I_imm"] += guarded(lambda: ref.I_imm(w.slots[sid].obj, sn, where=where + (f" operand {sid}" if sid in ops else f" bystander {sid}")), [w.slots[sid]])
    for sid in ops:
        if "coh" in w.invariants and sid in w.slots and not w.slots[sid].tainted:
            w.stats["chk.I_coh"] += guarded(lambda: ref.I_coh(w.slots[sid].obj, where=where + f" operand {sid}"), [w.slots[sid]])
    for s in touched:
        if "coh" in w.invariants:
            w.stats["chk.I_coh"] += guarded(lambda: ref.I_coh(s.obj, where=where + f" result {s.id}"), [s])
        if "mass" in w.invariants and s.kind in ("measure", "pdf") and not s.tainted:
            w.stats["chk.I_mass"] += guarded(lambda: ref.I_mass(s.obj, salt=(w.salt, i), where=where + f" result {s.id}"), [s])
        w.state_sigs.add(describe(s) + "|" + rec["op"])
    outs = sorted(k for k in w.outputs if k[0] == i)
    w.log.append((i, rec["op"], rec.get("name", rec.get("how", rec.get("which", ""))), tuple(ops),
                  tuple(sorted(before.items())), tuple(describe(s) for s in touched),
                  tuple((k[1], util.sha_bytes(w.outputs[k])) for k in outs)))
    return touched


def _repeat_check(w, rec, res_slot, where):
    """A re-issued operation (same operand objects, possibly mutated in place or queried since the first call)
    must give what the same operation gives on operands rebuilt from their defining parameters: nothing
    memoised on an operand may outlive an in-place update (local evict twin)."""
    from . import perturb

    w2 = World(salt=w.salt, invariants=())
    for sid in operands(rec):
        s0 = w.slots[sid]
        fresh = perturb.canonical_rebuild(s0.obj)
        s2 = Slot(sid, fresh if fresh is not None else s0.obj, s0.kind, -1, "rebuilt")
        s2.u = s0.u
        w2.slots[sid] = s2
    rec2 = {k: v for k, v in rec.items() if k != "repeat"}
    rec2["_i"] = rec["_i"]
    out2 = RUN[rec["op"]](w2, rec2)
    if not out2:
        return 0
    a, b = ref.attrs_of(res_slot.obj), ref.attrs_of(out2[0].obj)
    n = 0
    for name in a:
        if a[name] is None or b.get(name) is None:
            continue
        if name in ("ln_det_Sigma", "ln_det_Lambda", "lnZ", "ln_beta"):
            ref.cmp_log("I_repeat." + name, a[name], b[name], where=where)
        else:
            ref.cmp_lin("I_repeat." + name, a[name], b[name], floor=1e-3 if name in ("mu", "nu", "b") else 1e-6, where=where)
        n += 1
    return n


def _prod_pre(w, rec, i):
    """C01 oracle, before the call: operand log-values at generic points."""
    jnp = lib()["jnp"]
    u = w.obj(rec["a"])
    X = ref.points_for(u, ("prod", w.salt, i)) if ref.kind_of(u) in ("measure", "pdf") else ref.generic_points(int(u.D), ("prod", w.salt, i))
    Xj = jnp.asarray(X)
    pre = {"X": X, "lu": A(u.evaluate_ln(Xj))}
    if rec["op"] == "multiply":
        pre["lf"] = A(w.obj(rec["f"]).evaluate_ln(Xj))
    return pre


def _prod_post(w, rec, pre, res_slot, where):
    """C01 oracle, after the call: result == pointwise product in the documented layout;
    operands still evaluate to bit-identical values."""
    jnp = lib()["jnp"]
    Xj = jnp.asarray(pre["X"])
    lu = pre["lu"]
    got = A(res_slot.obj.evaluate_ln(Xj))
    n = 1
    if rec["op"] == "product":
        want = lu.sum(axis=0, keepdims=True)
        ref.cmp_log("I_prod.product", got, want, where=where)
    else:
        lf = pre["lf"]
        R1, R2 = lu.shape[0], lf.shape[0]
        if rec.get("how") == "hadamard":
            R = max(R1, R2)
            want = np.stack([lu[k if R1 > 1 else 0] + lf[k if R2 > 1 else 0] for k in range(R)])
            ref.cmp_log("I_prod.hadamard", got, want, where=where)
        else:
            want = np.empty((R1 * R2, lu.shape[1]))
            for a in range(R1):
                for b in range(R2):
                    want[a * R2 + b] = lu[a] + lf[b]
            ref.cmp_log("I_prod.multiply", got, want, where=where)
        if int(res_slot.obj.R) != want.shape[0]:
            raise Violation("I_prod.R", f"result reports R={int(res_slot.obj.R)} but evaluates to {want.shape[0]} components", where=where)
        ref.cmp_bits("I_prod.operand_f_values", A(w.obj(rec["f"]).evaluate_ln(Xj)), lf, where=where)
        n += 2
    ref.cmp_bits("I_prod.operand_u_values", A(w.obj(rec["a"]).evaluate_ln(Xj)), lu, where=where)
    return n + 1


def _sample_check(w, rec, i, where):
    """C19 oracle: shape; affine image of the key's normal stream (structural); 6-sigma moments."""
    L = lib()
    jax, jnp = L["jax"], L["jnp"]
    x = A(w.outputs[(i, "sample")])
    o = w.obj(rec["a"])
    mu, Sig = A(o.mu), A(o.Sigma)
    R, D = mu.shape
    n = int(rec["n"])
    if x.shape != (n, R, D):
        raise Violation("I_samp.shape", f"{x.shape} != {(n, R, D)}", where=where)
    if not np.all(np.isfinite(x)):
        raise Violation("I_samp.finite", "non-finite draws", where=where)
    checks = 1
    if n >= D + 2 and n <= 4096:
        key = jnp.asarray(np.asarray(rec["key"], dtype=np.uint32))
        z = A(jax.random.normal(key, (n, R, D)))
        ok_struct = True
        Ls = []
        for r in range(R):
            Y = x[:, r, :] - mu[r]
            sol, *_ = np.linalg.lstsq(z[:, r, :], Y, rcond=None)
            resid = Y - z[:, r, :] @ sol
            scale = max(np.max(np.abs(Y)), 1e-12)
            if np.max(np.abs(resid)) > 1e-8 * scale:
                ok_struct = False
                break
            Ls.append(sol.T)
        if ok_struct:
            for r in range(R):
                ref.cmp_lin("I_samp.LLt", Ls[r] @ Ls[r].T, Sig[r], where=where, component=r)
            w.stats["samp_structural_ok"] += 1
            checks += R
        else:
            # another (legal) use of the key stream: abstain, statistics judge
            w.stats["samp_structural_abstain"] += 1
    if n >= 5000:
        m = x.mean(axis=0)
        for r in range(R):
            se = np.sqrt(np.diag(Sig[r]) / n)
            if np.any(np.abs(m[r] - mu[r]) > 6 * se):
                raise Violation("I_samp.mean", f"component {r}: |mean-mu| {np.abs(m[r]-mu[r]).max():.3e} > 6 se {6*se.min():.3e}", where=where, observed=m[r], expected=mu[r])
            xc = x[:, r, :] - m[r]
            S = xc.T @ xc / (n - 1)
            d = np.diag(Sig[r])
            se2 = np.sqrt((np.outer(d, d) + Sig[r] ** 2) / n)
            if np.any(np.abs(S - Sig[r]) > 6 * se2):
                raise Violation("I_samp.cov", f"component {r}: covariance off by {np.abs(S-Sig[r]).max():.3e}", where=where, observed=S, expected=Sig[r])
        sd = x.std(axis=0)
        xs = (x - m) / np.maximum(sd, 1e-300)
        for r in range(R):
            for q in range(r + 1, R):
                C = xs[:, r, :].T @ xs[:, q, :] / n
                if np.any(np.abs(C) > 6 / np.sqrt(n)):
                    raise Violation("I_samp.cross", f"components {r},{q} correlated: {np.abs(C).max():.3e} > {6/np.sqrt(n):.3e}", where=where)
        w.stats["samp_statistical"] += 1
        checks += 2 * R
    return checks


class KnownFindingStop(Exception):
    """A step hit a recorded open finding in a way that leaves nothing to continue with."""


def _reach(w, rec, before):
    """Branch-reach probes derived from the operand state at call time."""
    if rec["op"] == "multiply":
        fcls = w.slots[rec["f"]].cls
        warm = before[rec["a"]].split(":")[2].startswith("S")
        how = rec.get("how", "multiply")
        uf = bool(rec.get("uf")) and how != "star"
        if fcls == "OneRankFactor" and uf:
            w.reach["sherman_morrison" if warm else "onerank_full_inversion"] += 1
        elif fcls in ("LinearFactor", "ConstantFactor") and uf:
            w.reach["cov_reuse" if warm else "lin_const_full_inversion"] += 1
        elif uf:
            w.reach["general_update_full"] += 1
        else:
            w.reach["natural_params_only"] += 1
        w.reach["how." + how] += 1
    elif rec["op"] == "product":
        w.reach["product_warm" if before[rec["a"]].split(":")[2].startswith("S") else "product_cold"] += 1
    elif rec["op"] == "slice":
        m = before[rec["a"]].split(":")[2]
        if m:
            w.reach["slice_warm" if m.startswith("S") else "slice_cold"] += 1
    elif rec["op"] == "affine":
        c, p = w.slots[rec["a"]], w.slots[rec["p"]]
        w.reach[f"affine.{rec['which']}.{'ident' if c.cls in IDENT else ('nn' if c.u is not None else 'gen')}.{'Dx>Dy' if c.obj.Dx > c.obj.Dy else 'Dx<=Dy'}.Rc{min(c.R,2)}Rp{min(p.R,2)}"] += 1
    f = w.last_fault.pop(rec.get("a"), None)
    if f:
        w.interleavings.add((f, rec["op"], before.get(rec.get("a"), "")))


def run_records(records, w, start=0, faults=None, stop=None):
    """Execute records[start:stop] in world w; faults: {before_step: [fault,...]}."""
    from . import perturb

    for i in range(start, len(records) if stop is None else stop):
        if faults and i in faults:
            for f in faults[i]:
                perturb.apply(w, f, i)
        exec_step(w, records[i], i)
    return w
