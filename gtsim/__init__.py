"""gtsim - deterministic simulation with fault injection for gaussian-toolbox."""
