"""Self-tests: determinism (same seed twice, different workers / PYTHONHASHSEED), schema validity.

`./check selftest --short` is MANIFEST.setup_cmd: imports, asserts the tree under test,
runs a small determinism diff per scenario (which also pre-warms the XLA compilation cache).
"""
import concurrent.futures as cf
import json
import multiprocessing as mp
import os
import subprocess
import sys
import time

from . import engine, rt


def _digests(prop, seeds, workers, tier="quick"):
    ctx = mp.get_context("spawn")
    with cf.ProcessPoolExecutor(max_workers=workers, mp_context=ctx, initializer=engine._worker_init) as ex:
        chunks = [seeds[i::workers] for i in range(workers)]
        out = {}
        for res in ex.map(engine.worker_chunk, [(prop, tier, c) for c in chunks if c]):
            for r in res:
                if r.get("harness_error"):
                    raise RuntimeError(r["harness_error"])
                out[r["seed"]] = (r["ok"], r["digest"], json.dumps(r.get("stats", {}), sort_keys=True))
        return out


def child(prop, lo, hi, workers):
    d = _digests(prop, list(range(lo, hi)), workers)
    print(json.dumps({str(k): v for k, v in sorted(d.items())}))
    return 0


def determinism(props, n, out=sys.stdout):
    ok = True
    for prop in props:
        t0 = time.time()
        runs = []
        for hashseed, workers in (("0", 16), ("12345", 5)):
            env = dict(os.environ, PYTHONHASHSEED=hashseed)
            p = subprocess.run([sys.executable, "-W", "ignore", "-m", "gtsim.selftest", "child", prop, "0", str(n), str(workers)],
                               cwd=rt.VERIF, env=env, capture_output=True, text=True, timeout=3000)
            if p.returncode != 0:
                print(f"selftest: {prop} child failed\n{p.stderr[-3000:]}", file=out)
                return False
            runs.append(json.loads(p.stdout.strip().splitlines()[-1]))
        diff = [k for k in runs[0] if runs[0][k] != runs[1].get(k)]
        print(f"selftest determinism {prop}: {len(runs[0])} seeds x 2 fresh interpreters (PYTHONHASHSEED 0/12345, 16/5 workers): "
              f"{'IDENTICAL' if not diff else 'DIVERGED ' + str(diff[:5])}  [{time.time()-t0:.0f}s]", file=out, flush=True)
        ok = ok and not diff
    return ok


def main(short=False):
    props = sorted(engine.SCENARIOS)
    # tree assertion happens in rt.init_jax() inside every worker
    ok = determinism(props, 24 if short else 200)
    try:
        import jsonschema  # noqa: F401  (not in /venv; schema check is best effort)
    except Exception:
        pass
    m = json.load(open(os.path.join(rt.VERIF, "MANIFEST.json")))
    assert m["version"] == 1 and "checks" in m
    print("selftest:", "OK" if ok else "FAILED")
    return 0 if ok else 2


if __name__ == "__main__":
    if len(sys.argv) > 1 and sys.argv[1] == "child":
        sys.exit(child(sys.argv[2], int(sys.argv[3]), int(sys.argv[4]), int(sys.argv[5])))
    sys.exit(main())
